//! verif-sim: deterministic simulation with fault injection for petgraph.
//!
//!   verif-sim run <PROPERTY> --tier quick|thorough --profile <name> --part-out <file>
//!   verif-sim replay <file>
//!   verif-sim merge <PROPERTY> <tier> <seed> --out <evidence.json> <part>...
//!
//! `run` and `replay` are supervisors: the simulated runs execute in a child process, so a run
//! that kills the process (allocation failure, stack overflow, abort) is located by bisection
//! over run indices and reported as a violation with a seed replay, like any other.
//!
//! Exit codes: 0 = property held on everything explored, 1 = violation (a line
//! `VIOLATION property=<id> replay=<path>` is printed), 2 = harness error.

mod core;
mod engines;
mod models;
mod plan;

use crate::core::runner::{run_batch, run_seed_for, BatchCfg};
use crate::core::{Acc, Shared, Tier};
use serde_json::{json, Value};
use std::path::{Path, PathBuf};
use std::process::Command;
use std::time::{Duration, Instant};

pub fn verif_dir() -> PathBuf {
    PathBuf::from(std::env::var("VERIF_DIR").unwrap_or_else(|_| "/verif".into()))
}

fn arg_value(args: &[String], name: &str) -> Option<String> {
    args.iter().position(|a| a == name).and_then(|i| args.get(i + 1).cloned())
}

fn harness_error(msg: &str) -> ! {
    eprintln!("[sim] HARNESS ERROR: {}", msg);
    std::process::exit(2);
}

fn load_known(property: &str) -> Vec<(String, String)> {
    let p = verif_dir().join("known-findings.json");
    let txt = match std::fs::read_to_string(&p) {
        Ok(t) => t,
        Err(_) => return vec![],
    };
    let v: Value = match serde_json::from_str(&txt) {
        Ok(v) => v,
        Err(e) => harness_error(&format!("known-findings.json does not parse: {}", e)),
    };
    v["findings"]
        .as_array()
        .cloned()
        .unwrap_or_default()
        .into_iter()
        .filter(|f| f["property"].as_str() == Some(property))
        .filter_map(|f| Some((f["class"].as_str()?.to_string(), f["what"].as_str().unwrap_or("").to_string())))
        .collect()
}

/// Re-execute a replay file in a fresh process; true iff it fails with `class`.
pub fn confirm_replay(path: &Path, class: &str) -> bool {
    let exe = match std::env::current_exe() {
        Ok(e) => e,
        Err(_) => return false,
    };
    let out = Command::new(exe).arg("replay").arg(path).env("VERIF_CONFIRMING", "1").output();
    match out {
        Ok(o) => {
            let s = String::from_utf8_lossy(&o.stdout);
            o.status.code() == Some(1) && s.lines().any(|l| l == format!("REPLAY-VIOLATION class={}", class))
        }
        Err(_) => false,
    }
}

struct RunArgs {
    property: String,
    tier: Tier,
    seed: u64,
    profile: String,
    share: f64,
    scale: f64,
    workers: usize,
    only_engine: Option<String>,
    part_out: Option<String>,
}

fn parse_run_args(args: &[String]) -> RunArgs {
    let property = args.get(0).cloned().unwrap_or_else(|| harness_error("missing property"));
    let tier = match arg_value(args, "--tier").as_deref().or(std::env::var("VERIF_TIER").ok().as_deref()) {
        Some("thorough") => Tier::Thorough,
        _ => Tier::Quick,
    };
    let seed: u64 = arg_value(args, "--seed")
        .or_else(|| std::env::var("VERIF_SEED").ok())
        .and_then(|s| s.trim().parse::<u64>().ok())
        .unwrap_or(plan::DEFAULT_SEED);
    RunArgs {
        property,
        tier,
        seed,
        profile: arg_value(args, "--profile").unwrap_or_else(|| "release".into()),
        share: arg_value(args, "--share").and_then(|s| s.parse().ok()).unwrap_or(1.0),
        scale: arg_value(args, "--scale").or_else(|| std::env::var("VERIF_SCALE").ok()).and_then(|s| s.parse().ok()).unwrap_or(1.0),
        workers: arg_value(args, "--workers")
            .or_else(|| std::env::var("VERIF_WORKERS").ok())
            .and_then(|s| s.parse().ok())
            .unwrap_or_else(|| std::thread::available_parallelism().map(|n| n.get()).unwrap_or(8)),
        only_engine: arg_value(args, "--engine"),
        part_out: arg_value(args, "--part-out"),
    }
}

fn runs_for(a: &RunArgs, it: &plan::PlanItem) -> u64 {
    (((if a.tier == Tier::Quick { it.quick_runs } else { it.thorough_runs }) as f64 * a.share * a.scale).ceil() as u64).max(1)
}

/// Supervisor: one child process per engine; a child killed by a signal is bisected.
fn cmd_run(args: &[String]) -> ! {
    let a = parse_run_args(args);
    std::env::set_var("VERIF_PROPERTY", &a.property);
    let items = plan::plan(&a.property).unwrap_or_else(|| harness_error(&format!("no plan for property {}", a.property)));
    let exe = std::env::current_exe().unwrap_or_else(|_| harness_error("no current_exe"));
    eprintln!("[sim] property={} tier={} VERIF_SEED={} profile={} workers={}", a.property, a.tier.as_str(), a.seed, a.profile, a.workers);
    let t0 = Instant::now();
    let mut engines_json: Vec<Value> = Vec::new();
    let mut violations = 0u64;
    let mut rc = 0;
    let tmp_dir = verif_dir().join("evidence/.parts");
    let _ = std::fs::create_dir_all(&tmp_dir);
    for it in &items {
        if let Some(o) = &a.only_engine {
            if o != it.engine {
                continue;
            }
        }
        let runs = runs_for(&a, it);
        let child_out = tmp_dir.join(format!("{}.{}.{}.engine.json", a.property, a.profile, it.engine));
        let _ = std::fs::remove_file(&child_out);
        let spawn = |start: u64, n: u64, bisect: bool| -> std::process::ExitStatus {
            let mut c = Command::new(&exe);
            c.arg("run-engine")
                .arg(&a.property)
                .arg("--engine")
                .arg(it.engine)
                .arg("--tier")
                .arg(a.tier.as_str())
                .arg("--seed")
                .arg(a.seed.to_string())
                .arg("--profile")
                .arg(&a.profile)
                .arg("--workers")
                .arg(a.workers.to_string())
                .arg("--start")
                .arg(start.to_string())
                .arg("--runs")
                .arg(n.to_string());
            if bisect {
                c.arg("--bisect");
            } else {
                c.arg("--engine-out").arg(&child_out);
            }
            c.status().unwrap_or_else(|e| harness_error(&format!("cannot spawn child: {}", e)))
        };
        let st = spawn(0, runs, false);
        match st.code() {
            Some(0) => {}
            Some(1) => {
                violations += 1;
                rc = 1;
            }
            Some(c) => {
                eprintln!("[sim] child for engine {} exited with code {}", it.engine, c);
                rc = 2;
            }
            None => {
                // killed by a signal: locate the run by bisection over run indices
                eprintln!("[sim] the process running engine {} was killed ({:?}); bisecting {} runs", it.engine, st, runs);
                let (mut lo, mut hi) = (0u64, runs);
                while hi - lo > 1 {
                    let mid = lo + (hi - lo) / 2;
                    let s = spawn(lo, mid - lo, true);
                    if s.code().is_none() {
                        hi = mid;
                    } else {
                        lo = mid;
                    }
                }
                let base_seed = crate::core::mix(a.seed, crate::core::fnv(a.profile.as_bytes()));
                let run_seed = run_seed_for(base_seed, it.engine, lo);
                let dir = verif_dir().join("replays");
                let _ = std::fs::create_dir_all(&dir);
                let path = dir.join(format!("{}-{}-abort-{:016x}.json", a.property, it.engine, run_seed));
                let class = format!("{}/process-abort", it.engine);
                let doc = json!({
                    "property": a.property, "engine": it.engine, "kind": "seed", "run_seed": run_seed, "run_index": lo,
                    "tier": a.tier.as_str(), "profile": a.profile, "expected_class": class,
                    "note": "this run kills the process (allocation failure / stack overflow / abort) instead of returning; replay regenerates the run from run_seed",
                });
                let _ = std::fs::write(&path, serde_json::to_string_pretty(&doc).unwrap());
                if confirm_replay(&path, &class) {
                    eprintln!("[sim] run {} (seed {:#x}) of engine {} kills the process", lo, run_seed, it.engine);
                    println!("VIOLATION property={} replay={}", a.property, path.display());
                    violations += 1;
                    rc = if rc == 2 { 2 } else { 1 };
                } else {
                    eprintln!("[sim] could not reproduce the process death in isolation (run index {}); harness error", lo);
                    rc = 2;
                }
            }
        }
        if let Ok(t) = std::fs::read_to_string(&child_out) {
            if let Ok(v) = serde_json::from_str::<Value>(&t) {
                engines_json.push(v);
            }
        }
        let _ = std::fs::remove_file(&child_out);
        if rc != 0 {
            break;
        }
    }
    let part = json!({
        "property_id": a.property, "tier": a.tier.as_str(), "seed": a.seed, "profile": a.profile,
        "engines": engines_json, "violations": violations, "wall_s": t0.elapsed().as_secs_f64(),
    });
    if let Some(p) = &a.part_out {
        if let Some(parent) = Path::new(p).parent() {
            let _ = std::fs::create_dir_all(parent);
        }
        if std::fs::write(p, serde_json::to_string_pretty(&part).unwrap()).is_err() {
            harness_error("cannot write evidence part");
        }
    }
    std::process::exit(rc);
}

/// Child: one engine, one range of run indices.
fn cmd_run_engine(args: &[String]) -> ! {
    let a = parse_run_args(args);
    std::env::set_var("VERIF_PROPERTY", &a.property);
    let engine_name = a.only_engine.clone().unwrap_or_else(|| harness_error("run-engine needs --engine"));
    let start: u64 = arg_value(args, "--start").and_then(|s| s.parse().ok()).unwrap_or(0);
    let runs: u64 = arg_value(args, "--runs").and_then(|s| s.parse().ok()).unwrap_or(1);
    let bisect = args.iter().any(|x| x == "--bisect");
    let engine_out = arg_value(args, "--engine-out");
    let engine = engines::get(&engine_name).unwrap_or_else(|| harness_error(&format!("unknown engine {}", engine_name)));
    let known = load_known(&a.property);
    // profiles explore different seeds
    let base_seed = crate::core::mix(a.seed, crate::core::fnv(a.profile.as_bytes()));
    let cfg = BatchCfg {
        base_seed,
        tier: a.tier,
        start,
        runs,
        workers: a.workers,
        known_classes: known.iter().map(|k| k.0.clone()).collect(),
        // VERIF_HANG_BUDGET_MS exists to exercise the supervisor itself
        hang_budget: std::env::var("VERIF_HANG_BUDGET_MS").ok().and_then(|s| s.parse().ok()).map(Duration::from_millis).unwrap_or(Duration::from_secs(if a.tier == Tier::Quick { 40 } else { 120 })),
        want_samples: if bisect { 0 } else { 2 },
    };
    let res = run_batch(engine.as_ref(), &cfg, Shared::new());
    if bisect {
        std::process::exit(0);
    }
    eprintln!(
        "[sim]   engine={} runs={} ops={} nontrivial={} states>={} wall={:.1}s digest={:016x}",
        res.engine,
        res.runs,
        res.acc.ops,
        res.nontrivial_runs,
        res.acc.shared.states.count(),
        res.wall_s,
        res.digest
    );
    println!("DIGEST engine={} profile={} {:016x}", res.engine, a.profile, res.digest);
    // one line per listed finding (a finding may match several classes)
    for (pattern, what) in &known {
        let mut hits = 0u64;
        let mut classes = 0usize;
        for (class, (count, _seed)) in &res.known_hits {
            if crate::core::class_is_known(&[pattern.clone()], class) {
                hits += count;
                classes += 1;
            }
        }
        if hits > 0 {
            println!("KNOWN-FINDING: property={} finding={} hits={} matched_classes={} -- {}", a.property, pattern, hits, classes, what);
        }
    }
    if let Some(p) = &engine_out {
        let _ = std::fs::write(p, serde_json::to_string(&crate::core::evidence::batch_to_json(&res)).unwrap());
    }
    let mut rc = 0;
    if let Some(found) = res.found {
        rc = 1;
        eprintln!("[sim] violation in run {} (seed {:#x}): {} -- {}", found.run_index, found.run_seed, found.violation.class, found.violation.detail);
        // write the unminimised case first; minimisation runs in its own process (a shrink
        // candidate may kill the process) and persists every improvement to the same file
        let dir = verif_dir().join("replays");
        let _ = std::fs::create_dir_all(&dir);
        let path = dir.join(format!("{}-{}-{:016x}.json", a.property, engine_name, found.run_seed));
        let n_ops = found.case["ops"].as_array().map(|x| x.len()).unwrap_or(0);
        let doc = json!({
            "property": a.property, "engine": engine_name, "kind": "case", "run_seed": found.run_seed, "verif_seed": a.seed,
            "profile": a.profile, "tier": a.tier.as_str(), "expected_class": found.violation.class, "detail": found.violation.detail,
            "fail_step": found.violation.step, "original_ops": n_ops, "case": found.case,
        });
        if std::fs::write(&path, serde_json::to_string_pretty(&doc).unwrap()).is_err() {
            harness_error("cannot write replay file");
        }
        let exe = std::env::current_exe().unwrap_or_else(|_| harness_error("no current_exe"));
        let budget_s: u64 = if a.tier == Tier::Quick { 20 } else { 60 };
        let st = Command::new(exe).arg("shrink").arg(&path).arg("--budget").arg(budget_s.to_string()).spawn().and_then(|mut ch| {
            // the minimiser bounds every candidate itself; this is the backstop
            let t0 = std::time::Instant::now();
            loop {
                if let Some(s) = ch.try_wait()? {
                    return Ok(s);
                }
                if t0.elapsed() > Duration::from_secs(budget_s * 3 + 60) {
                    let _ = ch.kill();
                    return ch.wait();
                }
                std::thread::sleep(Duration::from_millis(50));
            }
        });
        if !matches!(st.as_ref().map(|s| s.code()), Ok(Some(0))) {
            eprintln!("[sim] the minimiser did not finish cleanly ({:?}); keeping the best case found so far", st);
        }
        let detail = std::fs::read_to_string(&path).ok().and_then(|t| serde_json::from_str::<Value>(&t).ok()).and_then(|d| d["detail"].as_str().map(|s| s.to_string())).unwrap_or_default();
        if confirm_replay(&path, &found.violation.class) {
            eprintln!("[sim] {}", detail);
            println!("VIOLATION property={} replay={}", a.property, path.display());
        } else {
            // the minimised case must reproduce in a fresh process; otherwise something in the
            // harness is not deterministic: that is a harness error, not a verdict.
            harness_error(&format!("replay {} did not reproduce class {} in a fresh process", path.display(), found.violation.class));
        }
    }
    std::process::exit(rc);
}

/// Supervisor for replays: a child that dies of a signal is a reproduction of a process-abort.
fn cmd_replay(args: &[String]) -> ! {
    let path = args.get(0).cloned().unwrap_or_else(|| harness_error("missing replay file"));
    let txt = std::fs::read_to_string(&path).unwrap_or_else(|e| harness_error(&format!("cannot read {}: {}", path, e)));
    let doc: Value = serde_json::from_str(&txt).unwrap_or_else(|e| harness_error(&format!("bad replay json: {}", e)));
    let exe = std::env::current_exe().unwrap_or_else(|_| harness_error("no current_exe"));
    let out = Command::new(exe).arg("replay-child").args(args).output().unwrap_or_else(|e| harness_error(&format!("cannot spawn replay child: {}", e)));
    print!("{}", String::from_utf8_lossy(&out.stdout));
    eprint!("{}", String::from_utf8_lossy(&out.stderr));
    match out.status.code() {
        Some(c) => std::process::exit(c),
        None => {
            let class = format!("{}/process-abort", doc["engine"].as_str().unwrap_or("?"));
            println!("REPLAY-VIOLATION class={}", class);
            println!("detail: the replayed run killed the process ({:?})", out.status);
            if std::env::var("VERIF_CONFIRMING").is_err() {
                println!("VIOLATION property={} replay={}", doc["property"].as_str().unwrap_or("UNKNOWN"), path);
            }
            std::process::exit(1);
        }
    }
}

fn cmd_replay_child(args: &[String]) -> ! {
    let path = args.get(0).cloned().unwrap_or_else(|| harness_error("missing replay file"));
    let txt = std::fs::read_to_string(&path).unwrap_or_else(|e| harness_error(&format!("cannot read {}: {}", path, e)));
    let doc: Value = serde_json::from_str(&txt).unwrap_or_else(|e| harness_error(&format!("bad replay json: {}", e)));
    let engine_name = doc["engine"].as_str().unwrap_or_else(|| harness_error("replay lacks engine")).to_string();
    let property = doc["property"].as_str().unwrap_or("UNKNOWN").to_string();
    let expected = doc["expected_class"].as_str().unwrap_or("").to_string();
    let kind = doc["kind"].as_str().unwrap_or("case").to_string();
    let tier = if doc["tier"].as_str() == Some("thorough") { Tier::Thorough } else { Tier::Quick };
    let timeout = Duration::from_secs(arg_value(args, "--timeout").and_then(|s| s.parse().ok()).unwrap_or(90));
    std::env::set_var("VERIF_PROPERTY", &property);
    let (tx, rx) = std::sync::mpsc::channel();
    let doc2 = doc.clone();
    let (property2, expected2) = (property.clone(), expected.clone());
    std::thread::Builder::new()
        .stack_size(64 << 20)
        .spawn(move || {
            let engine = engines::get(&engine_name).unwrap_or_else(|| harness_error("unknown engine in replay"));
            let mut acc = Acc::new(Shared::new());
            // recorded findings stay skipped in a replay, unless the replay is about one
            let known: Vec<String> = load_known(&property2).into_iter().map(|k| k.0).filter(|k| !crate::core::class_is_known(&[k.clone()], &expected2)).collect();
            acc.known = std::sync::Arc::new(known);
            acc.begin_run(0);
            let out = if kind == "seed" {
                let seed = doc2["run_seed"].as_u64().unwrap_or_else(|| harness_error("seed replay lacks run_seed"));
                Ok(engine.run_seed(seed, tier, true, &mut acc))
            } else {
                engine.run_case(&doc2["case"], &mut acc)
            };
            let _ = tx.send(out.map(|o| o.violation));
        })
        .unwrap();
    match rx.recv_timeout(timeout) {
        Ok(Ok(Some(v))) => {
            println!("REPLAY-VIOLATION class={}", v.class);
            println!("detail: {}", v.detail);
            println!("step: {}", v.step);
            if std::env::var("VERIF_CONFIRMING").is_err() {
                println!("VIOLATION property={} replay={}", property, path);
            }
            std::process::exit(1);
        }
        Ok(Ok(None)) => {
            println!("REPLAY-OK no violation (expected class {})", expected);
            std::process::exit(0);
        }
        Ok(Err(e)) => harness_error(&format!("replay failed to execute: {}", e)),
        Err(_) => {
            let class = format!("{}/hang", doc["engine"].as_str().unwrap_or("?"));
            println!("REPLAY-VIOLATION class={}", class);
            println!("detail: run did not finish within {:?}", timeout);
            if std::env::var("VERIF_CONFIRMING").is_err() {
                println!("VIOLATION property={} replay={}", property, path);
            }
            std::process::exit(1);
        }
    }
}

/// Minimise the case in a replay file in place (every improvement is persisted at once).
fn cmd_shrink(args: &[String]) -> ! {
    let path = args.get(0).cloned().unwrap_or_else(|| harness_error("missing replay file"));
    let budget = Duration::from_secs(arg_value(args, "--budget").and_then(|s| s.parse().ok()).unwrap_or(20));
    let txt = std::fs::read_to_string(&path).unwrap_or_else(|e| harness_error(&format!("cannot read {}: {}", path, e)));
    let mut doc: Value = serde_json::from_str(&txt).unwrap_or_else(|e| harness_error(&format!("bad replay json: {}", e)));
    let engine_name = doc["engine"].as_str().unwrap_or_else(|| harness_error("replay lacks engine")).to_string();
    std::env::set_var("VERIF_PROPERTY", doc["property"].as_str().unwrap_or("UNKNOWN"));
    let class = doc["expected_class"].as_str().unwrap_or("").to_string();
    let fail_step = doc["fail_step"].as_u64().unwrap_or(u64::MAX >> 1) as usize;
    if engines::get(&engine_name).is_none() {
        harness_error("unknown engine");
    }
    let known: Vec<String> = load_known(doc["property"].as_str().unwrap_or("")).into_iter().map(|k| k.0).collect();
    let case = doc["case"].clone();
    let before = case["ops"].as_array().map(|x| x.len()).unwrap_or(0);
    let path2 = path.clone();
    let mut doc_w = doc.clone();
    let mut persist = |best: &Value| {
        doc_w["case"] = best.clone();
        let _ = std::fs::write(&path2, serde_json::to_string_pretty(&doc_w).unwrap());
    };
    let mut runner = crate::core::shrink::CandidateRunner::new(&engine_name, &class, &known, Duration::from_secs(4));
    let (min_case, st) = crate::core::shrink::minimise(&mut runner, &case, fail_step, budget, &mut persist);
    eprintln!("[sim] minimised {} -> {} ops in {} executions ({} candidates did not terminate)", before, st.ops_after, st.executions, runner.abandoned);
    runner.abandoned = 0;
    if let Some((step, detail)) = runner.run(&min_case) {
        doc["detail"] = json!(detail);
        doc["fail_step"] = json!(step);
    }
    doc["case"] = min_case;
    let _ = std::fs::write(&path, serde_json::to_string_pretty(&doc).unwrap());
    std::process::exit(0);
}

fn cmd_merge(args: &[String]) -> ! {
    let property = args.get(0).cloned().unwrap_or_else(|| harness_error("merge: property"));
    let tier = args.get(1).cloned().unwrap_or_else(|| harness_error("merge: tier"));
    let seed: u64 = args.get(2).and_then(|s| s.parse().ok()).unwrap_or(plan::DEFAULT_SEED);
    let out = arg_value(args, "--out").unwrap_or_else(|| harness_error("merge: --out"));
    let mut parts = Vec::new();
    let mut violations = 0u64;
    let mut i = 3;
    while i < args.len() {
        if args[i] == "--out" {
            i += 2;
            continue;
        }
        if let Ok(t) = std::fs::read_to_string(&args[i]) {
            if let Ok(v) = serde_json::from_str::<Value>(&t) {
                violations += v["violations"].as_u64().unwrap_or(0);
                parts.push(v);
            }
        }
        i += 1;
    }
    if parts.is_empty() {
        harness_error("merge: no readable parts");
    }
    let info = plan::static_info(&property);
    let ev = crate::core::evidence::merge_parts(&property, &tier, seed, &parts, violations, &info);
    if let Some(parent) = Path::new(&out).parent() {
        let _ = std::fs::create_dir_all(parent);
    }
    std::fs::write(&out, serde_json::to_string_pretty(&ev).unwrap()).unwrap_or_else(|e| harness_error(&format!("cannot write {}: {}", out, e)));
    for z in ev["coverage"]["probes_expected_but_zero"].as_array().cloned().unwrap_or_default() {
        eprintln!("[sim] WARNING: probe {} was never hit in this run", z);
    }
    std::process::exit(0);
}

fn main() {
    crate::core::install_panic_hook();
    let args: Vec<String> = std::env::args().skip(1).collect();
    if args.is_empty() {
        harness_error("usage: verif-sim run|replay|merge ...");
    }
    match args[0].as_str() {
        "run" => cmd_run(&args[1..]),
        "run-engine" => cmd_run_engine(&args[1..]),
        "replay" => cmd_replay(&args[1..]),
        "replay-child" => cmd_replay_child(&args[1..]),
        "merge" => cmd_merge(&args[1..]),
        "shrink" => cmd_shrink(&args[1..]),
        "list" => {
            for p in plan::PROPERTIES {
                println!("{}", p);
            }
        }
        _ => harness_error("unknown command"),
    }
}
