//! verif-sim: deterministic simulation with fault injection for petgraph.
//!
//!   verif-sim run <PROPERTY> --tier quick|thorough --profile <name> --part-out <file>
//!   verif-sim replay <file>
//!   verif-sim merge <PROPERTY> <tier> <seed> --out <evidence.json> <part>...
//!
//! Exit codes: 0 = property held on everything explored, 1 = violation (a line
//! `VIOLATION property=<id> replay=<path>` is printed), 2 = harness error.

mod core;
mod engines;
mod models;
mod plan;

use crate::core::runner::{run_batch, BatchCfg};
use crate::core::{Acc, Shared, Tier};
use serde_json::{json, Value};
use std::path::{Path, PathBuf};
use std::time::{Duration, Instant};

pub fn verif_dir() -> PathBuf {
    PathBuf::from(std::env::var("VERIF_DIR").unwrap_or_else(|_| "/verif".into()))
}

fn arg_value(args: &[String], name: &str) -> Option<String> {
    args.iter()
        .position(|a| a == name)
        .and_then(|i| args.get(i + 1).cloned())
}

fn harness_error(msg: &str) -> ! {
    eprintln!("[sim] HARNESS ERROR: {}", msg);
    std::process::exit(2);
}

fn load_known(property: &str) -> Vec<(String, String)> {
    let p = verif_dir().join("known-findings.json");
    let txt = match std::fs::read_to_string(&p) {
        Ok(t) => t,
        Err(_) => return vec![],
    };
    let v: Value = match serde_json::from_str(&txt) {
        Ok(v) => v,
        Err(e) => harness_error(&format!("known-findings.json does not parse: {}", e)),
    };
    v["findings"]
        .as_array()
        .cloned()
        .unwrap_or_default()
        .into_iter()
        .filter(|f| f["property"].as_str() == Some(property))
        .filter_map(|f| {
            Some((
                f["class"].as_str()?.to_string(),
                f["what"].as_str().unwrap_or("").to_string(),
            ))
        })
        .collect()
}

/// Re-execute a replay file in a fresh process; true iff it fails with `class`.
pub fn confirm_replay(path: &Path, class: &str) -> bool {
    let exe = match std::env::current_exe() {
        Ok(e) => e,
        Err(_) => return false,
    };
    let out = std::process::Command::new(exe)
        .arg("replay")
        .arg(path)
        .env("VERIF_CONFIRMING", "1")
        .output();
    match out {
        Ok(o) => {
            let s = String::from_utf8_lossy(&o.stdout);
            o.status.code() == Some(1) && s.lines().any(|l| l == format!("REPLAY-VIOLATION class={}", class))
        }
        Err(_) => false,
    }
}

fn cmd_run(args: &[String]) -> ! {
    let property = args.get(0).cloned().unwrap_or_else(|| harness_error("missing property"));
    let tier = match arg_value(args, "--tier").as_deref().or(std::env::var("VERIF_TIER").ok().as_deref()) {
        Some("thorough") => Tier::Thorough,
        _ => Tier::Quick,
    };
    let seed: u64 = arg_value(args, "--seed")
        .or_else(|| std::env::var("VERIF_SEED").ok())
        .and_then(|s| s.trim().parse::<u64>().ok())
        .unwrap_or(plan::DEFAULT_SEED);
    let profile = arg_value(args, "--profile").unwrap_or_else(|| "release".into());
    let share: f64 = arg_value(args, "--share").and_then(|s| s.parse().ok()).unwrap_or(1.0);
    let scale: f64 = arg_value(args, "--scale")
        .or_else(|| std::env::var("VERIF_SCALE").ok())
        .and_then(|s| s.parse().ok())
        .unwrap_or(1.0);
    let workers: usize = arg_value(args, "--workers")
        .or_else(|| std::env::var("VERIF_WORKERS").ok())
        .and_then(|s| s.parse().ok())
        .unwrap_or_else(|| std::thread::available_parallelism().map(|n| n.get()).unwrap_or(8));
    let only_engine = arg_value(args, "--engine");
    let part_out = arg_value(args, "--part-out");
    std::env::set_var("VERIF_PROPERTY", &property);

    let items = plan::plan(&property).unwrap_or_else(|| harness_error(&format!("no plan for property {}", property)));
    let known = load_known(&property);
    let t0 = Instant::now();
    let mut engines_json = Vec::new();
    let mut violations = 0u64;
    let mut known_printed: Vec<String> = Vec::new();
    // profiles explore different seeds
    let base_seed = crate::core::mix(seed, crate::core::fnv(profile.as_bytes()));
    eprintln!("[sim] property={} tier={} VERIF_SEED={} profile={} workers={}", property, tier.as_str(), seed, profile, workers);
    for it in items {
        if let Some(o) = &only_engine {
            if o != it.engine {
                continue;
            }
        }
        let engine = engines::get(it.engine).unwrap_or_else(|| harness_error(&format!("unknown engine {}", it.engine)));
        let runs = ((if tier == Tier::Quick { it.quick_runs } else { it.thorough_runs }) as f64 * share * scale).ceil() as u64;
        let cfg = BatchCfg {
            base_seed,
            tier,
            runs: runs.max(1),
            workers,
            known_classes: known.iter().map(|k| k.0.clone()).collect(),
            hang_budget: Duration::from_secs(if tier == Tier::Quick { 40 } else { 120 }),
            want_samples: 2,
        };
        let res = run_batch(engine.as_ref(), &cfg, Shared::new());
        eprintln!(
            "[sim]   engine={} runs={} ops={} nontrivial={} states>={} wall={:.1}s digest={:016x}",
            res.engine,
            res.runs,
            res.acc.ops,
            res.nontrivial_runs,
            res.acc.shared.states.count(),
            res.wall_s,
            res.digest
        );
        println!("DIGEST engine={} profile={} {:016x}", res.engine, profile, res.digest);
        // one line per listed finding (a finding may match several classes)
        for (pattern, what) in &known {
            let mut hits = 0u64;
            let mut classes: Vec<&String> = Vec::new();
            for (class, (count, _seed)) in &res.known_hits {
                if crate::core::class_is_known(&[pattern.clone()], class) {
                    hits += count;
                    classes.push(class);
                }
            }
            if hits > 0 && !known_printed.contains(pattern) {
                println!("KNOWN-FINDING: property={} finding={} hits={} matched_classes={} -- {}", property, pattern, hits, classes.len(), what);
                known_printed.push(pattern.clone());
            }
        }
        engines_json.push(crate::core::evidence::batch_to_json(&res));
        if let Some(found) = res.found {
            violations += 1;
            eprintln!(
                "[sim] violation in run {} (seed {:#x}): {} -- {}",
                found.run_index, found.run_seed, found.violation.class, found.violation.detail
            );
            let (min_case, st) = crate::core::shrink::minimise(
                engine.as_ref(),
                &found.case,
                &found.violation.class,
                found.violation.step,
                Duration::from_secs(if tier == Tier::Quick { 20 } else { 60 }),
            );
            eprintln!("[sim] minimised {} -> {} ops in {} executions", st.ops_before, st.ops_after, st.executions);
            // re-run the minimised case to get its detail text
            let mut acc = Acc::new(Shared::new());
            acc.begin_run(0);
            let detail = engine
                .run_case(&min_case, &mut acc)
                .ok()
                .and_then(|o| o.violation)
                .map(|v| v.detail)
                .unwrap_or_else(|| found.violation.detail.clone());
            let dir = verif_dir().join("replays");
            let _ = std::fs::create_dir_all(&dir);
            let path = dir.join(format!("{}-{}-{:016x}.json", property, it.engine, found.run_seed));
            let doc = json!({
                "property": property,
                "engine": it.engine,
                "kind": "case",
                "run_seed": found.run_seed,
                "verif_seed": seed,
                "profile": profile,
                "expected_class": found.violation.class,
                "detail": detail,
                "original_ops": st.ops_before,
                "case": min_case,
            });
            if std::fs::write(&path, serde_json::to_string_pretty(&doc).unwrap()).is_err() {
                harness_error("cannot write replay file");
            }
            if confirm_replay(&path, &found.violation.class) {
                eprintln!("[sim] {}", detail);
                println!("VIOLATION property={} replay={}", property, path.display());
            } else {
                // the minimised case must reproduce in a fresh process; otherwise something in
                // the harness is not deterministic: that is a harness error, not a verdict.
                harness_error(&format!("replay {} did not reproduce class {} in a fresh process", path.display(), found.violation.class));
            }
            break;
        }
    }
    let part = json!({
        "property_id": property,
        "tier": tier.as_str(),
        "seed": seed,
        "profile": profile,
        "engines": engines_json,
        "violations": violations,
        "wall_s": t0.elapsed().as_secs_f64(),
    });
    if let Some(p) = part_out {
        if let Some(parent) = Path::new(&p).parent() {
            let _ = std::fs::create_dir_all(parent);
        }
        if std::fs::write(&p, serde_json::to_string_pretty(&part).unwrap()).is_err() {
            harness_error("cannot write evidence part");
        }
    }
    std::process::exit(if violations > 0 { 1 } else { 0 });
}

fn cmd_replay(args: &[String]) -> ! {
    let path = args.get(0).cloned().unwrap_or_else(|| harness_error("missing replay file"));
    let txt = std::fs::read_to_string(&path).unwrap_or_else(|e| harness_error(&format!("cannot read {}: {}", path, e)));
    let doc: Value = serde_json::from_str(&txt).unwrap_or_else(|e| harness_error(&format!("bad replay json: {}", e)));
    let engine_name = doc["engine"].as_str().unwrap_or_else(|| harness_error("replay lacks engine")).to_string();
    let property = doc["property"].as_str().unwrap_or("UNKNOWN").to_string();
    let expected = doc["expected_class"].as_str().unwrap_or("").to_string();
    let kind = doc["kind"].as_str().unwrap_or("case").to_string();
    let tier = if doc["tier"].as_str() == Some("thorough") { Tier::Thorough } else { Tier::Quick };
    let timeout = Duration::from_secs(arg_value(args, "--timeout").and_then(|s| s.parse().ok()).unwrap_or(90));
    let (tx, rx) = std::sync::mpsc::channel();
    let doc2 = doc.clone();
    std::thread::Builder::new()
        .stack_size(64 << 20)
        .spawn(move || {
            let engine = engines::get(&engine_name).unwrap_or_else(|| harness_error("unknown engine in replay"));
            let mut acc = Acc::new(Shared::new());
            acc.begin_run(0);
            let out = if kind == "seed" {
                let seed = doc2["run_seed"].as_u64().unwrap_or_else(|| harness_error("seed replay lacks run_seed"));
                Ok(engine.run_seed(seed, tier, true, &mut acc))
            } else {
                engine.run_case(&doc2["case"], &mut acc)
            };
            let _ = tx.send(out.map(|o| o.violation));
        })
        .unwrap();
    match rx.recv_timeout(timeout) {
        Ok(Ok(Some(v))) => {
            println!("REPLAY-VIOLATION class={}", v.class);
            println!("detail: {}", v.detail);
            println!("step: {}", v.step);
            if std::env::var("VERIF_CONFIRMING").is_err() {
                println!("VIOLATION property={} replay={}", property, path);
            }
            std::process::exit(1);
        }
        Ok(Ok(None)) => {
            println!("REPLAY-OK no violation (expected class {})", expected);
            std::process::exit(0);
        }
        Ok(Err(e)) => harness_error(&format!("replay failed to execute: {}", e)),
        Err(_) => {
            let class = format!("{}/hang", doc["engine"].as_str().unwrap_or("?"));
            println!("REPLAY-VIOLATION class={}", class);
            println!("detail: run did not finish within {:?}", timeout);
            if std::env::var("VERIF_CONFIRMING").is_err() {
                println!("VIOLATION property={} replay={}", property, path);
            }
            std::process::exit(1);
        }
    }
}

fn cmd_merge(args: &[String]) -> ! {
    let property = args.get(0).cloned().unwrap_or_else(|| harness_error("merge: property"));
    let tier = args.get(1).cloned().unwrap_or_else(|| harness_error("merge: tier"));
    let seed: u64 = args.get(2).and_then(|s| s.parse().ok()).unwrap_or(plan::DEFAULT_SEED);
    let out = arg_value(args, "--out").unwrap_or_else(|| harness_error("merge: --out"));
    let mut parts = Vec::new();
    let mut violations = 0u64;
    let mut i = 3;
    while i < args.len() {
        if args[i] == "--out" {
            i += 2;
            continue;
        }
        if let Ok(t) = std::fs::read_to_string(&args[i]) {
            if let Ok(v) = serde_json::from_str::<Value>(&t) {
                violations += v["violations"].as_u64().unwrap_or(0);
                parts.push(v);
            }
        }
        i += 1;
    }
    if parts.is_empty() {
        harness_error("merge: no readable parts");
    }
    let info = plan::static_info(&property);
    let ev = crate::core::evidence::merge_parts(&property, &tier, seed, &parts, violations, &info);
    if let Some(parent) = Path::new(&out).parent() {
        let _ = std::fs::create_dir_all(parent);
    }
    std::fs::write(&out, serde_json::to_string_pretty(&ev).unwrap()).unwrap_or_else(|e| harness_error(&format!("cannot write {}: {}", out, e)));
    for z in ev["coverage"]["probes_expected_but_zero"].as_array().cloned().unwrap_or_default() {
        eprintln!("[sim] WARNING: probe {} was never hit in this run", z);
    }
    std::process::exit(0);
}

fn main() {
    crate::core::install_panic_hook();
    let args: Vec<String> = std::env::args().skip(1).collect();
    if args.is_empty() {
        harness_error("usage: verif-sim run|replay|merge ...");
    }
    match args[0].as_str() {
        "run" => cmd_run(&args[1..]),
        "replay" => cmd_replay(&args[1..]),
        "merge" => cmd_merge(&args[1..]),
        "list" => {
            for p in plan::PROPERTIES {
                println!("{}", p);
            }
        }
        _ => harness_error("unknown command"),
    }
}
