//! C03 — `GraphMap` is a simple graph keyed by node value. History engine; the model is a
//! `BTreeSet` of nodes and a `BTreeMap` from (canonical) pairs to weights.

use super::{Exec, History, OpFeed, Width};
use crate::core::hasher::{set_sim_hasher, SimBuildHasher};
use crate::core::{catch, Acc, Rng, StateHasher, Tier, Violation};
use petgraph::data::{Build, Element, FromElements};
use petgraph::graph::Graph;
use petgraph::graphmap::GraphMap;
use petgraph::visit::{EdgeRef, IntoEdgeReferences, IntoNodeIdentifiers, NodeCount, NodeIndexable};
use petgraph::{Directed, Direction, EdgeType, Undirected};
use serde::{Deserialize, Serialize};
use std::collections::{BTreeMap, BTreeSet};

type Key = i32;

#[derive(Clone, Debug, Serialize, Deserialize)]
pub struct Cfg {
    pub directed: bool,
    pub hasher_seed: u64,
    /// 0 good, 1 four-bucket, 2 constant
    pub hasher_mode: u8,
    pub cap: Option<(usize, usize)>,
    pub key_lo: i32,
    pub key_hi: i32,
    pub fault_permille: u32,
    pub disabled: u32,
    pub obs_seed: u64,
}

#[derive(Clone, Debug, Serialize, Deserialize)]
pub enum Op {
    AddNode(Key),
    BuildAddNode(Key),
    AddEdge(Key, Key),
    BuildAddEdge(Key, Key),
    /// `GraphMap::from_graph` of a Graph built directly from this list (endpoints in the
    /// order given, so descending pairs, repeated pairs and self-loops all occur), plus
    /// isolated nodes
    FromGraph { edges: Vec<(Key, Key)>, isolated: Vec<Key> },
    /// the first `k` keys of the key window, every third one joined to a pseudo-random other
    BulkKeys(usize),
    BuildUpdateEdge(Key, Key),
    RemoveNode(Key),
    RemoveEdge(Key, Key),
    Clear,
    Extend(Vec<(Key, Key)>),
    FromEdges(Vec<(Key, Key)>),
    FromIter(Vec<(Key, Key)>),
    SetW { a: Key, b: Key, index_mut: bool },
    AllEdgesMut,
    GraphRoundtrip(Width),
    FromElements,
    Clone,
}

impl Op {
    fn kind(&self) -> (&'static str, u8) {
        match self {
            Op::AddNode(_) => ("add_node", 0),
            Op::BuildAddNode(_) => ("build_add_node", 1),
            Op::AddEdge(..) => ("add_edge", 2),
            Op::BuildAddEdge(..) => ("build_add_edge", 3),
            Op::BuildUpdateEdge(..) => ("build_update_edge", 4),
            Op::RemoveNode(_) => ("remove_node", 5),
            Op::RemoveEdge(..) => ("remove_edge", 6),
            Op::Clear => ("clear", 7),
            Op::Extend(_) => ("extend", 8),
            Op::FromEdges(_) => ("from_edges", 9),
            Op::FromIter(_) => ("from_iter", 10),
            Op::SetW { .. } => ("edge_weight_mut", 11),
            Op::AllEdgesMut => ("all_edges_mut", 12),
            Op::GraphRoundtrip(_) => ("into_graph_from_graph", 13),
            Op::FromElements => ("from_elements", 14),
            Op::Clone => ("clone", 15),
            Op::FromGraph { .. } => ("from_graph", 16),
            Op::BulkKeys(_) => ("bulk_add_nodes", 17),
        }
    }
}

#[derive(Clone, Default)]
struct Model {
    directed: bool,
    nodes: BTreeSet<Key>,
    edges: BTreeMap<(Key, Key), u32>,
}

impl Model {
    fn key(&self, a: Key, b: Key) -> (Key, Key) {
        if self.directed || a <= b {
            (a, b)
        } else {
            (b, a)
        }
    }
    fn add_edge(&mut self, a: Key, b: Key, w: u32) -> Option<u32> {
        self.nodes.insert(a);
        self.nodes.insert(b);
        let k = self.key(a, b);
        self.edges.insert(k, w)
    }
    fn remove_node(&mut self, n: Key) -> bool {
        if !self.nodes.remove(&n) {
            return false;
        }
        self.edges.retain(|&(a, b), _| a != n && b != n);
        true
    }
    /// successors (directed) / adjacent nodes (undirected), self-loop once
    fn succ(&self, a: Key) -> Vec<Key> {
        let mut v = Vec::new();
        for &(x, y) in self.edges.keys() {
            if self.directed {
                if x == a {
                    v.push(y);
                }
            } else if x == a {
                v.push(y);
            } else if y == a {
                v.push(x);
            }
        }
        v
    }
    fn pred(&self, a: Key) -> Vec<Key> {
        if !self.directed {
            return self.succ(a);
        }
        self.edges.keys().filter(|k| k.1 == a).map(|k| k.0).collect()
    }
    fn weight(&self, a: Key, b: Key) -> Option<u32> {
        self.edges.get(&self.key(a, b)).copied()
    }
    fn hash(&self) -> u64 {
        let mut h = StateHasher::new();
        h.add(self.directed as u64);
        for n in &self.nodes {
            h.add(*n as u64);
        }
        h.add(0xFFFF);
        for k in self.edges.keys() {
            h.add(((k.0 as u32 as u64) << 32) | k.1 as u32 as u64);
        }
        h.finish()
    }
}

pub struct GraphMapEngine {
    pub visit: bool,
}

impl History for GraphMapEngine {
    type Cfg = Cfg;
    type Op = Op;
    fn name(&self) -> &'static str {
        if self.visit {
            "graphmap-visit"
        } else {
            "graphmap"
        }
    }
    fn rule(&self) -> &'static str {
        "history with >= 3 applied operations, >= 1 edge inserted and >= 1 successful removal"
    }
    fn gen_cfg(&self, rng: &mut Rng, tier: Tier) -> (Cfg, usize) {
        let mut span = match rng.below(10) {
            0..=3 => 3,
            4..=8 => 8,
            _ => 30,
        };
        // now and then a map of several hundred to a good thousand nodes (not in the visit
        // engine, whose battery compares all pairs of nodes)
        let many = !self.visit && rng.chance(1, 120);
        if many {
            // (260: a map of 253..256 nodes, around what a u8-indexed Graph can hold)
            span = *rng.pick(&[260i32, 260, 300, 1040, 1300]);
        }
        let key_lo = -(rng.below(3) as i32);
        let mut disabled = 0u32;
        for k in 7..=15u32 {
            if rng.chance(1, 4) {
                disabled |= 1 << k;
            }
        }
        let base = if tier == Tier::Thorough { 30 } else { 18 };
        let len = if many { rng.range(8, 30) } else { rng.geometric(1, base, 100) };
        (
            Cfg {
                directed: rng.chance(1, 2),
                hasher_seed: rng.next_u64(),
                hasher_mode: *rng.pick(&[0u8, 0, 0, 1, 2]),
                cap: if rng.chance(1, 3) { Some((rng.below(20), rng.below(30))) } else { None },
                key_lo,
                key_hi: key_lo + span,
                fault_permille: *rng.pick(&[0u32, 100, 300]),
                disabled,
                obs_seed: rng.next_u64(),
            },
            len,
        )
    }
    fn execute(&self, cfg: &Cfg, feed: OpFeed<Op>, acc: &mut Acc, ops: &mut Vec<Op>) -> Exec {
        if cfg.directed {
            run::<Directed>(self.name(), self.visit, cfg, feed, acc, ops)
        } else {
            run::<Undirected>(self.name(), self.visit, cfg, feed, acc, ops)
        }
    }
}

type GM<Ty> = GraphMap<Key, u32, Ty, SimBuildHasher>;

fn pick_key(rng: &mut Rng, cfg: &Cfg, m: &Model) -> Key {
    let live: Vec<Key> = m.nodes.iter().copied().collect();
    let outside = live.is_empty() || (rng.below(1000) as u32) < cfg.fault_permille;
    if outside || rng.chance(1, 3) {
        // any key of the universe (may or may not be live) -- occasionally far away
        if rng.chance(1, 40) {
            return *rng.pick(&[i32::MIN, i32::MAX, 1000]);
        }
        cfg.key_lo + rng.below((cfg.key_hi - cfg.key_lo + 1) as usize) as i32
    } else {
        live[rng.below(live.len())]
    }
}

fn pick_pair(rng: &mut Rng, cfg: &Cfg, m: &Model) -> (Key, Key) {
    // bias towards existing edges (and their reverses) so updates / removals hit
    if !m.edges.is_empty() && rng.chance(1, 3) {
        let ks: Vec<(Key, Key)> = m.edges.keys().copied().collect();
        let (a, b) = ks[rng.below(ks.len())];
        return if rng.chance(1, 3) { (b, a) } else { (a, b) };
    }
    let a = pick_key(rng, cfg, m);
    let b = if rng.chance(1, 8) { a } else { pick_key(rng, cfg, m) };
    (a, b)
}

fn gen_list(rng: &mut Rng, cfg: &Cfg, m: &Model) -> Vec<(Key, Key)> {
    let k = rng.below(6);
    (0..k).map(|_| pick_pair(rng, cfg, m)).collect()
}

fn gen_op(rng: &mut Rng, cfg: &Cfg, m: &Model) -> Op {
    if cfg.key_hi - cfg.key_lo >= 260 && m.nodes.is_empty() {
        let span = (cfg.key_hi - cfg.key_lo) as usize;
        return Op::BulkKeys(if span == 260 { 253 + rng.below(4) } else { span - 10 });
    }
    if cfg.key_hi - cfg.key_lo == 260 && rng.chance(1, 4) {
        return Op::GraphRoundtrip(Width::U8);
    }
    for _ in 0..20 {
        let op = match rng.below(100) {
            0..=9 => Op::AddNode(pick_key(rng, cfg, m)),
            10..=11 => Op::BuildAddNode(pick_key(rng, cfg, m)),
            12..=41 => {
                let (a, b) = pick_pair(rng, cfg, m);
                Op::AddEdge(a, b)
            }
            42..=44 => {
                let (a, b) = pick_pair(rng, cfg, m);
                Op::BuildAddEdge(a, b)
            }
            45..=47 => {
                let (a, b) = pick_pair(rng, cfg, m);
                Op::BuildUpdateEdge(a, b)
            }
            48..=59 => Op::RemoveNode(pick_key(rng, cfg, m)),
            60..=75 => {
                let (a, b) = pick_pair(rng, cfg, m);
                Op::RemoveEdge(a, b)
            }
            76 => {
                if rng.chance(1, 3) {
                    Op::Clear
                } else {
                    continue;
                }
            }
            77..=80 => Op::Extend(gen_list(rng, cfg, m)),
            81 => Op::FromEdges(gen_list(rng, cfg, m)),
            82 => Op::FromIter(gen_list(rng, cfg, m)),
            83..=88 => {
                let (a, b) = pick_pair(rng, cfg, m);
                Op::SetW { a, b, index_mut: rng.chance(1, 2) }
            }
            89..=90 => Op::AllEdgesMut,
            91..=92 => Op::GraphRoundtrip(Width::pick(rng)),
            93..=94 => Op::FromGraph { edges: gen_list(rng, cfg, m), isolated: (0..rng.below(3)).map(|_| pick_key(rng, cfg, m)).collect() },
            95..=96 => Op::FromElements,
            97 => Op::Clone,
            _ => {
                let (a, b) = pick_pair(rng, cfg, m);
                Op::AddEdge(a, b)
            }
        };
        if cfg.disabled & (1 << op.kind().1) != 0 {
            continue;
        }
        return op;
    }
    Op::AddNode(cfg.key_lo)
}

fn canon<Ty: EdgeType>(a: Key, b: Key) -> (Key, Key) {
    if Ty::is_directed() || a <= b {
        (a, b)
    } else {
        (b, a)
    }
}

fn sorted<T: Ord + Clone>(v: &[T]) -> Vec<T> {
    let mut v = v.to_vec();
    v.sort();
    v
}

fn observe<Ty: EdgeType>(g: &GM<Ty>, m: &Model, cfg: &Cfg, obs_rng: &mut Rng) -> Result<(), (&'static str, String)> {
    macro_rules! ensure {
        ($name:expr, $cond:expr, $($arg:tt)*) => {
            if !($cond) { return Err(($name, format!($($arg)*))); }
        };
    }
    ensure!("is_directed", g.is_directed() == m.directed, "is_directed() = {}", g.is_directed());
    ensure!("node_count", g.node_count() == m.nodes.len(), "node_count() = {}, model {}", g.node_count(), m.nodes.len());
    ensure!("edge_count", g.edge_count() == m.edges.len(), "edge_count() = {}, model {}", g.edge_count(), m.edges.len());
    let nodes: Vec<Key> = g.nodes().collect();
    let mn: Vec<Key> = m.nodes.iter().copied().collect();
    ensure!("nodes", sorted(&nodes) == mn, "nodes() = {:?}, model {:?}", nodes, mn);
    ensure!("nodes_len", g.nodes().len() == mn.len(), "nodes().len() = {}", g.nodes().len());
    let rev: Vec<Key> = g.nodes().rev().collect();
    let mut fwd_rev = nodes.clone();
    fwd_rev.reverse();
    ensure!("nodes_rev", rev == fwd_rev, "nodes().rev() = {:?} is not the reverse of nodes() = {:?}", rev, nodes);
    let all: Vec<(Key, Key, u32)> = g.all_edges().map(|(a, b, w)| { let (x, y) = canon::<Ty>(a, b); (x, y, *w) }).collect();
    let me: Vec<(Key, Key, u32)> = m.edges.iter().map(|(k, w)| (k.0, k.1, *w)).collect();
    ensure!("all_edges", sorted(&all) == me, "all_edges() = {:?}, model {:?}", all, me);
    let all_rev: Vec<(Key, Key, u32)> = g.all_edges().rev().map(|(a, b, w)| { let (x, y) = canon::<Ty>(a, b); (x, y, *w) }).collect();
    ensure!("all_edges_rev", sorted(&all_rev) == me, "all_edges().rev() = {:?}, model {:?}", all_rev, me);
    // iterator protocol of the whole-graph iterators: every way of consuming them tells the
    // same sequence
    {
        let raw: Vec<(Key, Key, u32)> = g.all_edges().map(|(a, b, w)| (a, b, *w)).collect();
        let len = raw.len();
        ensure!("all_edges_size_hint", g.all_edges().size_hint() == (len, Some(len)), "all_edges().size_hint() = {:?} with {} edges", g.all_edges().size_hint(), len);
        ensure!("all_edges_count", g.all_edges().count() == len, "all_edges().count() = {} with {} edges", g.all_edges().count(), len);
        let last = g.all_edges().last().map(|(a, b, w)| (a, b, *w));
        ensure!("all_edges_last", last == raw.last().copied(), "all_edges().last() = {:?}, the sequence ends with {:?}", last, raw.last());
        let k = obs_rng.below(len + 2);
        let mut it = g.all_edges();
        let nth = it.nth(k).map(|(a, b, w)| (a, b, *w));
        ensure!("all_edges_nth", nth == raw.get(k).copied(), "all_edges().nth({}) = {:?}, the sequence has {:?} there", k, nth, raw.get(k));
        let after = it.next().map(|(a, b, w)| (a, b, *w));
        ensure!("all_edges_nth", after == raw.get(k + 1).copied(), "all_edges(): next() after nth({}) = {:?}, the sequence has {:?} there", k, after, raw.get(k + 1));
        // meet in the middle
        let mut it = g.all_edges();
        let (mut front, mut back) = (Vec::new(), Vec::new());
        loop {
            let take_front = obs_rng.chance(1, 2);
            let x = if take_front { it.next() } else { it.next_back() };
            match x {
                Some((a, b, w)) => if take_front { front.push((a, b, *w)) } else { back.push((a, b, *w)) },
                None => break,
            }
            if front.len() + back.len() > len + 2 {
                break;
            }
        }
        back.reverse();
        front.extend(back);
        ensure!("all_edges_double_ended", front == raw, "all_edges() consumed from both ends gives {:?}, forwards {:?}", front, raw);
        ensure!("nodes_size_hint", g.nodes().size_hint() == (nodes.len(), Some(nodes.len())), "nodes().size_hint() = {:?} with {} nodes", g.nodes().size_hint(), nodes.len());
        ensure!("nodes_count", g.nodes().count() == nodes.len(), "nodes().count() = {}", g.nodes().count());
        ensure!("nodes_last", g.nodes().last() == nodes.last().copied(), "nodes().last() = {:?}, the sequence ends with {:?}", g.nodes().last(), nodes.last());
        let k = obs_rng.below(nodes.len() + 2);
        ensure!("nodes_nth", g.nodes().nth(k) == nodes.get(k).copied(), "nodes().nth({}) = {:?}, the sequence has {:?} there", k, g.nodes().nth(k), nodes.get(k));
        let (cn, ce) = g.capacity();
        ensure!("capacity", cn >= nodes.len() && ce >= len, "capacity() = ({}, {}) below the element counts ({}, {})", cn, ce, nodes.len(), len);
        // compact edge numbering
        let eb = petgraph::visit::EdgeIndexable::edge_bound(g);
        ensure!("edge_bound", eb == len, "edge_bound() = {} with {} edges", eb, len);
        let mut seen = vec![false; len];
        for &(a, b, _) in &raw {
            let i = petgraph::visit::EdgeIndexable::to_index(g, (a, b));
            ensure!("edge_to_index", i < len && !seen[i], "EdgeIndexable::to_index(({}, {})) = {} (bound {}, already used: {})", a, b, i, len, i < len && seen[i]);
            seen[i] = true;
            let back = petgraph::visit::EdgeIndexable::from_index(g, i);
            ensure!("edge_from_index", back == (a, b), "EdgeIndexable::from_index(to_index(({}, {}))) = {:?}", a, b, back);
        }
    }
    if obs_rng.chance(1, 3) {
        use crate::engines::iter_protocol as ip;
        let salt = obs_rng.next_u64();
        let res = (|| -> Result<(), String> {
            ip("nodes()", || g.nodes(), |k| *k, salt)?;
            ip("all_edges()", || g.all_edges(), |e| (e.0, e.1, *e.2), salt)?;
            if !nodes.is_empty() {
                let a = nodes[(salt % nodes.len() as u64) as usize];
                ip(&format!("neighbors({})", a), || g.neighbors(a), |k| *k, salt)?;
                ip(&format!("neighbors_directed({}, Outgoing)", a), || g.neighbors_directed(a, Direction::Outgoing), |k| *k, salt)?;
                ip(&format!("neighbors_directed({}, Incoming)", a), || g.neighbors_directed(a, Direction::Incoming), |k| *k, salt)?;
                ip(&format!("edges({})", a), || g.edges(a), |e| (e.0, e.1, *e.2), salt)?;
                ip(&format!("edges_directed({}, Outgoing)", a), || g.edges_directed(a, Direction::Outgoing), |e| (e.0, e.1, *e.2), salt)?;
                ip(&format!("edges_directed({}, Incoming)", a), || g.edges_directed(a, Direction::Incoming), |e| (e.0, e.1, *e.2), salt)?;
            }
            Ok(())
        })();
        if let Err(e) = res {
            return Err(("iterator-protocol", e));
        }
    }
    // compact numbering
    let n = nodes.len();
    let mut seen = vec![false; n];
    ensure!("node_bound", NodeIndexable::node_bound(g) == n, "node_bound() = {} with {} nodes", NodeIndexable::node_bound(g), n);
    for &k in &nodes {
        let i = NodeIndexable::to_index(g, k);
        ensure!("to_index", i < n && !seen[i], "to_index({}) = {} (n = {}, already used: {})", k, i, n, i < n && seen[i]);
        seen[i] = true;
        let back = NodeIndexable::from_index(g, i);
        ensure!("from_index", back == k, "from_index(to_index({})) = {}", k, back);
    }
    // universe of keys to probe
    let mut keys: Vec<Key> = (cfg.key_lo..=cfg.key_hi).collect();
    for k in m.nodes.iter() {
        if !keys.contains(k) {
            keys.push(*k);
        }
    }
    keys.push(cfg.key_hi + 1);
    if keys.len() > 14 {
        // sample, but always keep live nodes in rotation
        let mut sample = Vec::new();
        for _ in 0..14 {
            sample.push(keys[obs_rng.below(keys.len())]);
        }
        keys = sample;
    }
    for &a in &keys {
        ensure!("contains_node", g.contains_node(a) == m.nodes.contains(&a), "contains_node({}) = {}", a, g.contains_node(a));
        let succ = m.succ(a);
        let pred = m.pred(a);
        let nb: Vec<Key> = g.neighbors(a).collect();
        ensure!("neighbors", sorted(&nb) == sorted(&succ), "neighbors({}) = {:?}, model {:?}", a, nb, succ);
        let nbo: Vec<Key> = g.neighbors_directed(a, Direction::Outgoing).collect();
        ensure!("neighbors_directed_outgoing", sorted(&nbo) == sorted(&succ), "neighbors_directed({}, Outgoing) = {:?}, model {:?}", a, nbo, succ);
        let nbi: Vec<Key> = g.neighbors_directed(a, Direction::Incoming).collect();
        ensure!("neighbors_directed_incoming", sorted(&nbi) == sorted(&pred), "neighbors_directed({}, Incoming) = {:?}, model {:?}", a, nbi, pred);
        let es: Vec<(Key, Key, u32)> = g.edges(a).map(|(x, y, w)| (x, y, *w)).collect();
        let exp: Vec<(Key, Key, u32)> = succ.iter().map(|&b| (a, b, m.weight(a, b).unwrap())).collect();
        ensure!("edges", sorted(&es) == sorted(&exp), "edges({}) = {:?}, model (queried node as source) {:?}", a, es, exp);
        let eo: Vec<(Key, Key, u32)> = g.edges_directed(a, Direction::Outgoing).map(|(x, y, w)| (x, y, *w)).collect();
        ensure!("edges_directed_outgoing", sorted(&eo) == sorted(&exp), "edges_directed({}, Outgoing) = {:?}, model {:?}", a, eo, exp);
        let ei: Vec<(Key, Key, u32)> = g.edges_directed(a, Direction::Incoming).map(|(x, y, w)| (x, y, *w)).collect();
        let expi: Vec<(Key, Key, u32)> = pred.iter().map(|&b| (b, a, m.weight(b, a).unwrap())).collect();
        ensure!("edges_directed_incoming", sorted(&ei) == sorted(&expi), "edges_directed({}, Incoming) = {:?}, model (queried node as target) {:?}", a, ei, expi);
    }
    for &a in &keys {
        for &b in &keys {
            let w = m.weight(a, b);
            ensure!("contains_edge", g.contains_edge(a, b) == w.is_some(), "contains_edge({}, {}) = {}, model weight {:?}", a, b, g.contains_edge(a, b), w);
            ensure!("edge_weight", g.edge_weight(a, b).copied() == w, "edge_weight({}, {}) = {:?}, model {:?}", a, b, g.edge_weight(a, b), w);
            if let Some(w) = w {
                ensure!("index", g[(a, b)] == w, "g[({}, {})] = {}, model {}", a, b, g[(a, b)], w);
            }
        }
    }
    Ok(())
}

fn rebuild_model_edges(m: &mut Model, list: &[(Key, Key, u32)]) {
    for &(a, b, w) in list {
        m.add_edge(a, b, w);
    }
}

fn run<Ty: EdgeType + Clone>(name: &'static str, visit: bool, cfg: &Cfg, mut feed: OpFeed<Op>, acc: &mut Acc, ops: &mut Vec<Op>) -> Exec {
    set_sim_hasher(cfg.hasher_seed, cfg.hasher_mode);
    let hasher = SimBuildHasher { seed: cfg.hasher_seed, mode: cfg.hasher_mode };
    let mut g: GM<Ty> = match cfg.cap {
        Some((n, e)) => GraphMap::with_capacity_and_hasher(n, e, hasher),
        None => GraphMap::default(),
    };
    let mut m = Model { directed: Ty::is_directed(), ..Default::default() };
    let mut next_w = 100u32;
    let mut step = 0usize;
    let mut edges_added = 0usize;
    let mut removals = 0usize;
    let mut obs_rng = Rng::new(cfg.obs_seed);
    acc.probe_if(cfg.hasher_mode == 2, "graphmap_constant_hasher_run");
    acc.probe_if(cfg.hasher_mode == 1, "graphmap_low_entropy_hasher_run");

    macro_rules! bail {
        ($kind:expr, $check:expr, $($arg:tt)*) => {{
            return Exec { violation: Some(Violation::new(format!("{}/{}/{}", name, $kind, $check), format!($($arg)*), step)), nontrivial: step >= 3 && edges_added >= 1 && removals >= 1 };
        }};
    }
    let mut fresh = || {
        next_w += 1;
        next_w
    };

    while let Some(op) = feed.next(|rng| gen_op(rng, cfg, &m)) {
        ops.push(op.clone());
        let (kind, code) = op.kind();
        acc.op(kind, code);
        match &op {
            Op::AddNode(k) | Op::BuildAddNode(k) => {
                let r = catch(|| if matches!(op, Op::AddNode(_)) { g.add_node(*k) } else { Build::add_node(&mut g, *k) });
                match r {
                    Ok(r) => {
                        if r != *k {
                            bail!(kind, "result", "add_node({}) returned {}", k, r);
                        }
                    }
                    Err(p) => bail!(kind, "panic", "add_node({}) panicked: {}", k, p),
                }
                acc.probe_if(m.nodes.contains(k), "graphmap_add_existing_node");
                m.nodes.insert(*k);
            }
            Op::AddEdge(a, b) => {
                let w = fresh();
                let before = m.weight(*a, *b);
                match catch(|| g.add_edge(*a, *b, w)) {
                    Ok(r) => {
                        if r != before {
                            bail!(kind, "result", "add_edge({}, {}) returned {:?}, previous weight in the model {:?}", a, b, r, before);
                        }
                    }
                    Err(p) => bail!(kind, "panic", "add_edge({}, {}) panicked: {}", a, b, p),
                }
                acc.probe_if(before.is_some(), "graphmap_add_edge_replaced_weight");
                acc.probe_if(a == b, "graphmap_self_loop");
                acc.probe_if(m.directed && m.weight(*b, *a).is_some() && a != b, "graphmap_reciprocal_pair");
                m.add_edge(*a, *b, w);
                edges_added += 1;
            }
            Op::BuildAddEdge(a, b) => {
                let w = fresh();
                let exists = m.weight(*a, *b).is_some();
                match catch(|| Build::add_edge(&mut g, *a, *b, w)) {
                    Ok(r) => {
                        if exists {
                            if r.is_some() {
                                bail!(kind, "result", "Build::add_edge({}, {}) returned {:?} although the edge exists", a, b, r);
                            }
                        } else {
                            match r {
                                Some((x, y)) if canon::<Ty>(x, y) == canon::<Ty>(*a, *b) => {}
                                _ => bail!(kind, "result", "Build::add_edge({}, {}) returned {:?}", a, b, r),
                            }
                            m.add_edge(*a, *b, w);
                            edges_added += 1;
                        }
                    }
                    Err(p) => bail!(kind, "panic", "Build::add_edge({}, {}) panicked: {}", a, b, p),
                }
            }
            Op::BuildUpdateEdge(a, b) => {
                let w = fresh();
                match catch(|| Build::update_edge(&mut g, *a, *b, w)) {
                    Ok((x, y)) => {
                        if canon::<Ty>(x, y) != canon::<Ty>(*a, *b) {
                            bail!(kind, "result", "Build::update_edge({}, {}) returned ({}, {})", a, b, x, y);
                        }
                    }
                    Err(p) => bail!(kind, "panic", "Build::update_edge({}, {}) panicked: {}", a, b, p),
                }
                m.add_edge(*a, *b, w);
                edges_added += 1;
            }
            Op::RemoveNode(k) => {
                let exp = m.nodes.contains(k);
                if !exp {
                    acc.fault("absent_node");
                } else {
                    acc.probe_if(m.weight(*k, *k).is_some(), "graphmap_removed_node_with_self_loop");
                    acc.probe_if(m.directed && m.succ(*k).iter().any(|s| s != k && m.weight(*s, *k).is_some()), "graphmap_removed_node_with_reciprocal_edges");
                }
                match catch(|| g.remove_node(*k)) {
                    Ok(r) => {
                        if r != exp {
                            bail!(kind, "result", "remove_node({}) = {}, model {}", k, r, exp);
                        }
                    }
                    Err(p) => bail!(kind, "panic", "remove_node({}) panicked: {}", k, p),
                }
                if m.remove_node(*k) {
                    removals += 1;
                }
            }
            Op::RemoveEdge(a, b) => {
                let exp = m.weight(*a, *b);
                if exp.is_none() {
                    acc.fault("absent_edge");
                }
                match catch(|| g.remove_edge(*a, *b)) {
                    Ok(r) => {
                        if r != exp {
                            bail!(kind, "result", "remove_edge({}, {}) = {:?}, model {:?}", a, b, r, exp);
                        }
                    }
                    Err(p) => bail!(kind, "panic", "remove_edge({}, {}) panicked: {}", a, b, p),
                }
                if exp.is_some() {
                    let k = m.key(*a, *b);
                    m.edges.remove(&k);
                    removals += 1;
                }
            }
            Op::BulkKeys(k) => {
                let k = (*k).min(1400);
                for i in 0..k {
                    let a = cfg.key_lo + i as i32;
                    if let Err(p) = catch(|| g.add_node(a)) {
                        bail!(kind, "panic", "add_node({}) panicked with {} nodes: {}", a, m.nodes.len(), p);
                    }
                    m.nodes.insert(a);
                    if i % 3 == 0 {
                        let b = cfg.key_lo + ((i * 7 + 3) % k) as i32;
                        let w = fresh();
                        match catch(|| g.add_edge(a, b, w)) {
                            Ok(old) => {
                                let exp = m.add_edge(a, b, w);
                                if old != exp {
                                    bail!(kind, "result", "add_edge({}, {}) returned {:?}, model {:?}", a, b, old, exp);
                                }
                                edges_added += 1;
                            }
                            Err(p) => bail!(kind, "panic", "add_edge({}, {}) panicked: {}", a, b, p),
                        }
                    }
                }
                acc.probe_if(m.nodes.len() > 1024, "graphmap_more_than_1024_nodes");
            }
            Op::Clear => {
                if let Err(p) = catch(|| g.clear()) {
                    bail!(kind, "panic", "clear panicked: {}", p);
                }
                m.nodes.clear();
                m.edges.clear();
            }
            Op::Extend(list) | Op::FromEdges(list) | Op::FromIter(list) => {
                let ws: Vec<(Key, Key, u32)> = list.iter().map(|&(a, b)| (a, b, fresh())).collect();
                let r = match &op {
                    Op::Extend(_) => catch(|| g.extend(ws.iter().copied())),
                    Op::FromEdges(_) => catch(|| g = GraphMap::from_edges(ws.iter().copied())),
                    _ => catch(|| g = ws.iter().copied().collect()),
                };
                if let Err(p) = r {
                    bail!(kind, "panic", "{} panicked: {}", kind, p);
                }
                if !matches!(op, Op::Extend(_)) {
                    m.nodes.clear();
                    m.edges.clear();
                }
                rebuild_model_edges(&mut m, &ws);
                edges_added += ws.len();
            }
            Op::FromGraph { edges, isolated } => {
                let ws: Vec<(Key, Key, u32)> = edges.iter().map(|&(a, b)| (a, b, fresh())).collect();
                let r = catch(|| {
                    let mut gr: Graph<Key, u32, Ty, u32> = Graph::default();
                    let mut ix: BTreeMap<Key, petgraph::graph::NodeIndex<u32>> = BTreeMap::new();
                    for &k in isolated.iter() {
                        ix.entry(k).or_insert_with(|| gr.add_node(k));
                    }
                    for &(a, b, w) in &ws {
                        let ia = *ix.entry(a).or_insert_with(|| gr.add_node(a));
                        let ib = *ix.entry(b).or_insert_with(|| gr.add_node(b));
                        gr.add_edge(ia, ib, w);
                    }
                    g = GraphMap::from_graph(gr);
                });
                if let Err(p) = r {
                    bail!(kind, "panic", "from_graph panicked: {}", p);
                }
                m.nodes.clear();
                m.edges.clear();
                for &k in isolated.iter() {
                    m.nodes.insert(k);
                }
                rebuild_model_edges(&mut m, &ws);
                edges_added += ws.len();
            }
            Op::SetW { a, b, index_mut } => {
                let w = fresh();
                let exists = m.weight(*a, *b).is_some();
                if !exists {
                    acc.fault("absent_edge");
                }
                if *index_mut {
                    match (catch(|| g[(*a, *b)] = w), exists) {
                        (Ok(()), true) => {
                            let k = m.key(*a, *b);
                            m.edges.insert(k, w);
                        }
                        (Err(_), false) => acc.fault("documented_panic"),
                        (Ok(()), false) => bail!(kind, "missing-panic", "g[({}, {})] = w succeeded although the edge does not exist", a, b),
                        (Err(p), true) => bail!(kind, "panic", "g[({}, {})] = w panicked on an existing edge: {}", a, b, p),
                    }
                } else {
                    match catch(|| g.edge_weight_mut(*a, *b).map(|x| *x = w).is_some()) {
                        Ok(r) => {
                            if r != exists {
                                bail!(kind, "result", "edge_weight_mut({}, {}).is_some() = {}, model {}", a, b, r, exists);
                            }
                            if exists {
                                let k = m.key(*a, *b);
                                m.edges.insert(k, w);
                            }
                        }
                        Err(p) => bail!(kind, "panic", "edge_weight_mut({}, {}) panicked: {}", a, b, p),
                    }
                }
            }
            Op::AllEdgesMut => {
                let mut log: Vec<(Key, Key, u32, u32)> = Vec::new();
                // every way of consuming the iterator must visit each edge exactly once
                let total = m.edges.len();
                let how = (step as u64 + cfg.obs_seed) % 4;
                let mut proto: Option<String> = None;
                let r = catch(|| {
                    let hint = g.all_edges_mut().size_hint();
                    if hint != (total, Some(total)) {
                        proto = Some(format!("size_hint() = {:?} with {} edges", hint, total));
                    }
                    let c = g.all_edges_mut().count();
                    if c != total {
                        proto = Some(format!("count() = {} with {} edges", c, total));
                    }
                    let mut visit = |a: Key, b: Key, w: &mut u32, log: &mut Vec<(Key, Key, u32, u32)>| {
                        let nw = fresh();
                        log.push((a, b, *w, nw));
                        *w = nw;
                    };
                    match how {
                        0 => {
                            for (a, b, w) in g.all_edges_mut() {
                                visit(a, b, w, &mut log);
                            }
                        }
                        1 => {
                            for (a, b, w) in g.all_edges_mut().rev() {
                                visit(a, b, w, &mut log);
                            }
                        }
                        2 => {
                            // nth(k) skips exactly k items; the skipped prefix is visited through a second pass
                            let k = if total == 0 { 0 } else { (cfg.obs_seed as usize ^ step) % total };
                            let mut it = g.all_edges_mut();
                            if let Some((a, b, w)) = it.nth(k) {
                                visit(a, b, w, &mut log);
                            }
                            for (a, b, w) in it {
                                visit(a, b, w, &mut log);
                            }
                            let mut it = g.all_edges_mut();
                            for _ in 0..k.min(total) {
                                if let Some((a, b, w)) = it.next() {
                                    visit(a, b, w, &mut log);
                                }
                            }
                        }
                        _ => {
                            // last() is the item next_back() gives; then everything but it
                            let mut last_key = None;
                            if let Some((a, b, w)) = g.all_edges_mut().last() {
                                last_key = Some((a, b));
                                visit(a, b, w, &mut log);
                            }
                            let mut it = g.all_edges_mut();
                            match (it.next_back(), last_key) {
                                (Some((a, b, _)), Some(k)) if (a, b) == k => {}
                                (None, None) => {}
                                (x, k) => proto = Some(format!("last() gave {:?} but next_back() gives {:?}", k, x.map(|t| (t.0, t.1)))),
                            }
                            for (a, b, w) in it {
                                visit(a, b, w, &mut log);
                            }
                        }
                    }
                });
                if let Err(p) = r {
                    bail!(kind, "panic", "all_edges_mut panicked: {}", p);
                }
                if let Some(d) = proto {
                    bail!(kind, "iterator-protocol", "all_edges_mut(): {}", d);
                }
                if log.len() != m.edges.len() {
                    bail!(kind, "count", "all_edges_mut yielded {} edges, model has {}", log.len(), m.edges.len());
                }
                for (a, b, old, nw) in log {
                    let k = m.key(a, b);
                    match m.edges.get_mut(&k) {
                        Some(w) if *w == old => *w = nw,
                        other => bail!(kind, "item", "all_edges_mut yielded ({}, {}, {}) but the model has {:?}", a, b, old, other),
                    }
                }
            }
            Op::GraphRoundtrip(width) => {
                fn rt<Ty: EdgeType + Clone, Ix: petgraph::graph::IndexType>(g: &GM<Ty>, m: &Model) -> Result<GM<Ty>, String> {
                    let gr: Graph<Key, u32, Ty, Ix> = g.clone().into_graph();
                    let mut nw: Vec<Key> = gr.node_weights().copied().collect();
                    nw.sort();
                    let mn: Vec<Key> = m.nodes.iter().copied().collect();
                    if nw != mn {
                        return Err(format!("into_graph: node weights {:?}, model nodes {:?}", nw, mn));
                    }
                    let mut es: Vec<(Key, Key, u32)> = gr.edge_references().map(|e| { let (a, b) = canon::<Ty>(gr[e.source()], gr[e.target()]); (a, b, *e.weight()) }).collect();
                    es.sort();
                    let me: Vec<(Key, Key, u32)> = m.edges.iter().map(|(k, w)| (k.0, k.1, *w)).collect();
                    if es != me {
                        return Err(format!("into_graph: edges {:?}, model {:?}", es, me));
                    }
                    Ok(GraphMap::from_graph(gr))
                }
                // a Graph of that index width must be able to hold the map (otherwise into_graph
                // takes the documented panic of Graph::add_node / add_edge)
                // (a u8-indexed Graph holds up to 255 nodes and 255 edges)
                let width = if m.nodes.len() > 255 || m.edges.len() > 255 { if m.nodes.len() >= 60_000 || m.edges.len() >= 60_000 { &Width::U32 } else if *width == Width::U8 { &Width::U16 } else { width } } else { width };
                acc.probe_if(*width == Width::U8 && m.nodes.len() == 255, "graphmap_into_u8_graph_with_255_nodes");
                let r = catch(|| match width {
                    Width::U8 => rt::<Ty, u8>(&g, &m),
                    Width::U16 => rt::<Ty, u16>(&g, &m),
                    Width::U32 => rt::<Ty, u32>(&g, &m),
                    Width::Usize => rt::<Ty, usize>(&g, &m),
                });
                match r {
                    Ok(Ok(g2)) => g = g2,
                    Ok(Err(d)) => bail!(kind, "into_graph", "{}", d),
                    Err(p) => bail!(kind, "panic", "into_graph/from_graph panicked: {}", p),
                }
            }
            Op::FromElements => {
                let r = catch(|| {
                    let ids: Vec<Key> = g.node_identifiers().collect();
                    let mut els: Vec<Element<Key, u32>> = ids.iter().map(|&k| Element::Node { weight: k }).collect();
                    for e in g.edge_references() {
                        let s = ids.iter().position(|k| *k == e.source()).unwrap();
                        let t = ids.iter().position(|k| *k == e.target()).unwrap();
                        els.push(Element::Edge { source: s, target: t, weight: *e.weight() });
                    }
                    <GM<Ty> as FromElements>::from_elements(els)
                });
                match r {
                    Ok(g2) => g = g2,
                    Err(p) => bail!(kind, "panic", "from_elements panicked: {}", p),
                }
            }
            Op::Clone => {
                let c = g.clone();
                g = c;
            }
        }
        if !visit {
            match catch(|| observe::<Ty>(&g, &m, cfg, &mut obs_rng)) {
                Ok(Ok(())) => {}
                Ok(Err((c, d))) => bail!(kind, c, "{}", d),
                Err(p) => bail!(kind, "observe-panic", "a query panicked after {}: {}", kind, p),
            }
        } else {
            match catch(|| super::visit::check_graphmap(&g, cfg.obs_seed ^ step as u64)) {
                Ok(Ok(())) => {}
                Ok(Err((c, d))) => bail!("visit", c, "{}", d),
                Err(p) => bail!("visit", "panic", "a visit-trait call panicked after {}: {}", kind, p),
            }
        }
        let _ = NodeCount::node_count(&g);
        acc.state(m.hash());
        step += 1;
    }
    if cfg.obs_seed % 4 == 0 && m.nodes.len() <= 24 {
        acc.probe("graphmap_ptr_keyed_mirror");
        match catch(|| ptr_mirror::<Ty>(&m, cfg)) {
            Ok(Ok(())) => {}
            Ok(Err((c, d))) => bail!("ptr_keys", c, "a GraphMap keyed by graphmap::Ptr, holding the final graph of this run: {}", d),
            Err(p) => bail!("ptr_keys", "panic", "a GraphMap keyed by graphmap::Ptr panicked: {}", p),
        }
    }
    Exec { violation: None, nontrivial: step >= 3 && edges_added >= 1 && removals >= 1 }
}

static PTR_CELLS: [u8; 64] = [0; 64];

/// The same simple graph in a `GraphMap` whose node values are `graphmap::Ptr`s (compared,
/// ordered and hashed by address) into a static array: node values other than integers.
fn ptr_mirror<Ty: EdgeType>(m: &Model, cfg: &Cfg) -> Result<(), (&'static str, String)> {
    use petgraph::graphmap::Ptr;
    macro_rules! ensure {
        ($name:expr, $cond:expr, $($arg:tt)*) => {
            if !($cond) { return Err(($name, format!($($arg)*))); }
        };
    }
    // distinct cells for distinct keys (keys outside the window are folded in; collisions are dropped)
    let slot = |k: Key| -> usize { ((k as i64 - cfg.key_lo as i64).rem_euclid(64)) as usize };
    let mut used = BTreeMap::new();
    for &k in &m.nodes {
        used.entry(slot(k)).or_insert(k);
    }
    let keys: Vec<Key> = used.values().copied().collect();
    let p = |k: Key| Ptr(&PTR_CELLS[slot(k)]);
    let keep = |k: Key| used.get(&slot(k)) == Some(&k);
    let mut g: GraphMap<Ptr<'static, u8>, u32, Ty, SimBuildHasher> = GraphMap::with_capacity_and_hasher(0, 0, SimBuildHasher { seed: cfg.hasher_seed, mode: cfg.hasher_mode });
    for &k in &keys {
        g.add_node(p(k));
    }
    let mut edges: BTreeMap<(Key, Key), u32> = BTreeMap::new();
    for (&(a, b), &w) in &m.edges {
        if keep(a) && keep(b) {
            // a second copy of the same pointers must address the same nodes
            let old = g.add_edge(Ptr(&PTR_CELLS[slot(a)]), Ptr(&PTR_CELLS[slot(b)]), w);
            ensure!("add_edge", old.is_none(), "add_edge of a new edge returned {:?}", old);
            edges.insert((a, b), w);
        }
    }
    for &k in &keys {
        g.add_node(p(k));
    }
    ensure!("node_count", g.node_count() == keys.len(), "node_count() = {} for {} distinct pointers (re-adding a node must not duplicate it)", g.node_count(), keys.len());
    ensure!("edge_count", g.edge_count() == edges.len(), "edge_count() = {}, expected {}", g.edge_count(), edges.len());
    let directed = Ty::is_directed();
    let weight = |a: Key, b: Key| -> Option<u32> { edges.get(&(a, b)).copied().or_else(|| if directed { None } else { edges.get(&(b, a)).copied() }) };
    for &a in &keys {
        ensure!("contains_node", g.contains_node(p(a)), "contains_node is false for an inserted pointer");
        let mut nb: Vec<usize> = g.neighbors(p(a)).map(|q| (q.0 as *const u8 as usize) - (&PTR_CELLS[0] as *const u8 as usize)).collect();
        nb.sort();
        let mut exp: Vec<usize> = keys.iter().filter(|&&b| weight(a, b).is_some()).map(|&b| slot(b)).collect();
        exp.sort();
        ensure!("neighbors", nb == exp, "neighbors(cell {}) = cells {:?}, expected {:?}", slot(a), nb, exp);
        let ne = g.edges(p(a)).count();
        ensure!("edges", ne == exp.len(), "edges(cell {}) yields {} edges, expected {}", slot(a), ne, exp.len());
        for &b in &keys {
            let w = weight(a, b);
            ensure!("contains_edge", g.contains_edge(p(a), p(b)) == w.is_some(), "contains_edge(cell {}, cell {}) = {}, expected {}", slot(a), slot(b), !w.is_some(), w.is_some());
            ensure!("edge_weight", g.edge_weight(p(a), p(b)).copied() == w, "edge_weight(cell {}, cell {}) = {:?}, expected {:?}", slot(a), slot(b), g.edge_weight(p(a), p(b)), w);
        }
    }
    let listed = g.all_edges().count();
    ensure!("all_edges", listed == edges.len(), "all_edges() yields {} edges, expected {}", listed, edges.len());
    if let Some(&k) = keys.first() {
        let gone = keys.iter().filter(|&&b| weight(k, b).is_some() || weight(b, k).is_some()).count();
        let loops = if weight(k, k).is_some() { 1 } else { 0 };
        let incident: usize = edges.keys().filter(|e| e.0 == k || e.1 == k).count();
        let _ = (gone, loops);
        ensure!("remove_node", g.remove_node(p(k)), "remove_node of an inserted pointer returned false");
        ensure!("remove_node", g.node_count() == keys.len() - 1 && g.edge_count() == edges.len() - incident, "after remove_node: {} nodes / {} edges, expected {} / {}", g.node_count(), g.edge_count(), keys.len() - 1, edges.len() - incident);
    }
    Ok(())
}
