//! Engines. A *history engine* drives one stateful structure with a seeded client in
//! lock-step with a reference model; ops are generated with knowledge of the model state
//! (so most are meaningful) and recorded as an explicit list that can be replayed/shrunk.

use crate::core::{Acc, Engine, Rng, RunOutput, Tier, Violation};
use serde::de::DeserializeOwned;
use serde::Serialize;
use serde_json::{json, Value};

pub mod acyclic;
pub mod adjlist;
pub mod adjsut;
pub mod append;
pub mod graphmap;
pub mod matrix;
pub mod replicas;
pub mod stream;
pub mod visit;
pub mod unionfind;

pub enum OpFeed<Op> {
    Gen { rng: Rng, remaining: usize },
    Replay { ops: std::vec::IntoIter<Op> },
}

impl<Op> OpFeed<Op> {
    /// Next op: generated from the live model state, or the next recorded one.
    pub fn next(&mut self, gen: impl FnOnce(&mut Rng) -> Op) -> Option<Op> {
        match self {
            OpFeed::Gen { rng, remaining } => {
                if *remaining == 0 {
                    None
                } else {
                    *remaining -= 1;
                    Some(gen(rng))
                }
            }
            OpFeed::Replay { ops } => ops.next(),
        }
    }
    pub fn is_gen(&self) -> bool {
        matches!(self, OpFeed::Gen { .. })
    }
}

pub struct Exec {
    pub violation: Option<Violation>,
    pub nontrivial: bool,
}

pub trait History: Sync + Send + 'static {
    type Cfg: Serialize + DeserializeOwned + Clone;
    type Op: Serialize + DeserializeOwned + Clone;
    fn name(&self) -> &'static str;
    fn rule(&self) -> &'static str;
    /// Swarm configuration for this run; returns (cfg, planned number of ops).
    fn gen_cfg(&self, rng: &mut Rng, tier: Tier) -> (Self::Cfg, usize);
    /// Execute a history. Every op is pushed onto `ops` *before* it is applied, so the
    /// list survives a panic that unwinds out of the harness.
    fn execute(
        &self,
        cfg: &Self::Cfg,
        feed: OpFeed<Self::Op>,
        acc: &mut Acc,
        ops: &mut Vec<Self::Op>,
    ) -> Exec;
}

pub struct H<T: History>(pub T);

impl<T: History> Engine for H<T> {
    fn name(&self) -> &'static str {
        self.0.name()
    }
    fn rule(&self) -> &'static str {
        self.0.rule()
    }
    fn run_seed(&self, seed: u64, tier: Tier, want_case: bool, acc: &mut Acc) -> RunOutput {
        let mut rng = Rng::new(seed);
        let (cfg, len) = self.0.gen_cfg(&mut rng, tier);
        let feed = OpFeed::Gen {
            rng: rng.fork(),
            remaining: len,
        };
        let mut ops = Vec::new();
        let ops_ptr = std::ptr::addr_of!(ops);
        let ex = guarded(self.0.name(), || self.0.execute(&cfg, feed, acc, &mut ops), ops_ptr);
        let case = if want_case || ex.violation.is_some() {
            Some(json!({"engine": self.0.name(), "cfg": cfg, "ops": ops}))
        } else {
            None
        };
        RunOutput {
            violation: ex.violation,
            case,
            case_hash: acc.run_digest,
            nontrivial: ex.nontrivial,
        }
    }
    fn run_case(&self, case: &Value, acc: &mut Acc) -> Result<RunOutput, String> {
        let cfg: T::Cfg =
            serde_json::from_value(case["cfg"].clone()).map_err(|e| format!("bad cfg: {}", e))?;
        let ops: Vec<T::Op> =
            serde_json::from_value(case["ops"].clone()).map_err(|e| format!("bad ops: {}", e))?;
        let mut done = Vec::new();
        let done_ptr = std::ptr::addr_of!(done);
        let ex = guarded(
            self.0.name(),
            || {
                self.0.execute(
                    &cfg,
                    OpFeed::Replay {
                        ops: ops.into_iter(),
                    },
                    acc,
                    &mut done,
                )
            },
            done_ptr,
        );
        Ok(RunOutput {
            violation: ex.violation,
            case: Some(json!({"engine": self.0.name(), "cfg": cfg, "ops": done})),
            case_hash: acc.run_digest,
            nontrivial: ex.nontrivial,
        })
    }
}

/// Run an engine body; a panic that escapes the per-call `catch` wrappers (i.e. one raised
/// by an observation call on the structure under test) becomes a violation of class
/// `<engine>/uncaught-panic` at the op that was in flight.
fn guarded<Op>(name: &str, f: impl FnOnce() -> Exec, ops: *const Vec<Op>) -> Exec {
    match crate::core::catch(f) {
        Ok(e) => e,
        Err(p) => {
            // SAFETY: `ops` outlives this call and the closure that borrowed it mutably has
            // finished (unwound) by now.
            let n = unsafe { (*ops).len() };
            Exec {
                violation: Some(Violation::new(
                    format!("{}/uncaught-panic", name),
                    format!("panic outside a guarded call while applying/observing op #{}: {}", n.saturating_sub(1), p),
                    n.saturating_sub(1),
                )),
                nontrivial: false,
            }
        }
    }
}

pub fn get(name: &str) -> Option<Box<dyn Engine>> {
    Some(match name {
        "unionfind" => Box::new(H(unionfind::UnionFindEngine)),
        "graph" => Box::new(H(adjlist::AdjEngine { stable: false, mode: adjlist::Mode::Refine })),
        "stable" => Box::new(H(adjlist::AdjEngine { stable: true, mode: adjlist::Mode::Refine })),
        "graph-visit" => Box::new(H(adjlist::AdjEngine { stable: false, mode: adjlist::Mode::Visit })),
        "stable-visit" => Box::new(H(adjlist::AdjEngine { stable: true, mode: adjlist::Mode::Visit })),
        "graphmap" => Box::new(H(graphmap::GraphMapEngine { visit: false })),
        "matrix" => Box::new(H(matrix::MatrixEngine { visit: false })),
        "matrix-visit" => Box::new(H(matrix::MatrixEngine { visit: true })),
        "csr" => Box::new(H(append::CsrEngine { visit: false })),
        "csr-visit" => Box::new(H(append::CsrEngine { visit: true })),
        "list" => Box::new(H(append::ListEngine { visit: false })),
        "list-visit" => Box::new(H(append::ListEngine { visit: true })),
        "acyclic-graph" => Box::new(H(acyclic::AcyclicEngine { stable: false })),
        "acyclic-stable" => Box::new(H(acyclic::AcyclicEngine { stable: true })),
        "serde-stream" => Box::new(H(stream::StreamEngine)),
        "replicas" => Box::new(H(replicas::ReplicaEngine)),
        "graphmap-visit" => Box::new(H(graphmap::GraphMapEngine { visit: true })),
        _ => return None,
    })
}

/// Index width of the structure under test.
#[derive(Clone, Copy, Debug, PartialEq, Eq, serde::Serialize, serde::Deserialize)]
pub enum Width {
    U8,
    U16,
    U32,
    Usize,
}

impl Width {
    pub fn pick(rng: &mut Rng) -> Width {
        match rng.below(10) {
            0..=3 => Width::U8,
            4..=5 => Width::U16,
            6..=8 => Width::U32,
            _ => Width::Usize,
        }
    }
    /// Largest value of the index type (== the `end()` marker for graph indices).
    pub fn max(self) -> usize {
        match self {
            Width::U8 => u8::MAX as usize,
            Width::U16 => u16::MAX as usize,
            Width::U32 => u32::MAX as usize,
            Width::Usize => usize::MAX,
        }
    }
}

/// The `Iterator` protocol on one of the library's iterators: every way of consuming it
/// (collect, count, last, nth, fold, after a partially consumed prefix as well) must tell the
/// same sequence, and `size_hint` must bracket what is left. The methods are called on the
/// library's own iterator type (not on an adaptor), so specialised `count` / `nth` / `last` /
/// `fold` implementations are what runs. `key` projects an item onto something comparable.
pub fn iter_protocol<I, K, F, P>(what: &str, mk: F, key: P, salt: u64) -> Result<(), String>
where
    F: Fn() -> I,
    I: Iterator,
    P: Fn(&I::Item) -> K,
    K: PartialEq + std::fmt::Debug,
{
    let mut all: Vec<K> = Vec::new();
    let mut it = mk();
    while let Some(x) = it.next() {
        all.push(key(&x));
        if all.len() > 5_000_000 {
            return Err(format!("{} does not terminate", what));
        }
    }
    let len = all.len();
    let hint_ok = |h: (usize, Option<usize>), left: usize| h.0 <= left && h.1.map_or(true, |u| u >= left);
    let h = mk().size_hint();
    if !hint_ok(h, len) {
        return Err(format!("{}.size_hint() = {:?} but it yields {} items", what, h, len));
    }
    let c = mk().count();
    if c != len {
        return Err(format!("{}.count() = {} but it yields {} items", what, c, len));
    }
    let l = mk().last().map(|x| key(&x));
    if l.as_ref() != all.last() {
        return Err(format!("{}.last() = {:?} but the sequence ends with {:?}", what, l, all.last()));
    }
    let f = mk().fold(0usize, |n, _| n + 1);
    if f != len {
        return Err(format!("{}.fold() visits {} items of {}", what, f, len));
    }
    let mut ks = vec![1usize, len / 2, len.saturating_sub(1), len];
    ks.sort();
    ks.dedup();
    for k in ks {
        if k > len || (k == 0 && len > 0) {
            continue;
        }
        let left = len - k;
        let mut it = mk();
        for _ in 0..k {
            it.next();
        }
        let h = it.size_hint();
        if !hint_ok(h, left) {
            return Err(format!("{} after {} items: size_hint() = {:?} but {} items are left", what, k, h, left));
        }
        let c = it.count();
        if c != left {
            return Err(format!("{} after {} items: count() = {} but {} items are left", what, k, c, left));
        }
        let mut it = mk();
        for _ in 0..k {
            it.next();
        }
        let l = it.last().map(|x| key(&x));
        let exp = if left > 0 { all.last() } else { None };
        if l.as_ref() != exp {
            return Err(format!("{} after {} items: last() = {:?}, expected {:?}", what, k, l, exp));
        }
        let mut it = mk();
        for _ in 0..k {
            it.next();
        }
        let rest: Vec<K> = {
            let mut v = Vec::new();
            it.for_each(|x| v.push(key(&x)));
            v
        };
        if rest[..] != all[k..] {
            return Err(format!("{} after {} items: for_each() visits {:?}, expected {:?}", what, k, rest, &all[k..]));
        }
    }
    let j = (salt % (len as u64 + 2)) as usize;
    let mut it = mk();
    let x = it.nth(j).map(|x| key(&x));
    if x.as_ref() != all.get(j) {
        return Err(format!("{}.nth({}) = {:?}, the sequence has {:?} there", what, j, x, all.get(j)));
    }
    if j < len {
        let y = it.next().map(|x| key(&x));
        if y.as_ref() != all.get(j + 1) {
            return Err(format!("{}: next() after nth({}) = {:?}, the sequence has {:?} there", what, j, y, all.get(j + 1)));
        }
    }
    Ok(())
}
