//! C01 / C02 — history refinement of `Graph` and `StableGraph` against `AdjModel`.
//! (Also hosts the C06 step invariant and provides states for C17.)

use super::adjsut::*;
use super::{Exec, History, OpFeed, Width};
use crate::core::{catch, Acc, Rng, Tier, Violation};
use crate::models::adj::AdjModel;
use petgraph::graph::Graph;
use petgraph::stable_graph::StableGraph;
use petgraph::{Directed, Undirected};
use serde::{Deserialize, Serialize};
use std::collections::{BTreeMap, BTreeSet};

#[derive(Clone, Copy, Debug, PartialEq, Eq, Serialize, Deserialize)]
pub enum Mode {
    /// compare against the reference model after every step (C01 / C02)
    Refine,
    /// evaluate the visit-trait invariant on every reached state (C06)
    Visit,
}

#[derive(Clone, Debug, Serialize, Deserialize)]
pub struct Cfg {
    pub stable: bool,
    pub directed: bool,
    pub width: Width,
    pub cap: Option<(usize, usize)>,
    pub create_via_trait: bool,
    /// 0 tiny (<=4 nodes), 1 small (<=12), 2 wide (<=40), 3 capacity (fill the u8 index space)
    pub size_class: u8,
    pub fault_permille: u32,
    /// bit k set = op kind with code k is disabled in this run (swarm testing)
    pub disabled: u64,
    pub obs_seed: u64,
}

#[derive(Clone, Debug, Serialize, Deserialize)]
pub enum Op {
    AddNode { try_: bool, via_build: bool },
    AddEdge { a: usize, b: usize, mode: EdgeMode },
    RemoveNode(usize),
    RemoveEdge(usize),
    SetNodeW { a: usize, how: WHow },
    SetEdgeW { e: usize, how: WHow },
    IndexTwice { kind: u8, i: usize, j: usize },
    RewriteNodeW,
    RewriteEdgeW,
    RetainNodes { seed: u64, keep: u32, touch: bool },
    RetainEdges { seed: u64, keep: u32, touch: bool },
    Reverse,
    Clear,
    ClearEdges,
    Map,
    FilterMap { seed: u64, keep_n: u32, keep_e: u32 },
    Extend { edges: Vec<(usize, usize)> },
    FromEdges { edges: Vec<(usize, usize)> },
    IntoEdgeType { directed: bool },
    Clone { clone_from: bool },
    Roundtrip,
    FromElements,
    FilterElements { seed: u64, keep_n: u32, keep_e: u32 },
    Capacity { which: u8, n: usize },
    BulkNodes(usize),
    BulkEdges { k: usize, seed: u64 },
}

impl Op {
    pub fn kind(&self) -> (&'static str, u8) {
        match self {
            Op::AddNode { try_: false, via_build: false } => ("add_node", 0),
            Op::AddNode { try_: true, .. } => ("try_add_node", 1),
            Op::AddNode { via_build: true, .. } => ("build_add_node", 31),
            Op::AddEdge { mode, .. } => match mode {
                EdgeMode::Add => ("add_edge", 2),
                EdgeMode::TryAdd => ("try_add_edge", 3),
                EdgeMode::Update => ("update_edge", 4),
                EdgeMode::TryUpdate => ("try_update_edge", 5),
                EdgeMode::BuildAdd => ("build_add_edge", 6),
                EdgeMode::BuildUpdate => ("build_update_edge", 7),
            },
            Op::RemoveNode(_) => ("remove_node", 8),
            Op::RemoveEdge(_) => ("remove_edge", 9),
            Op::SetNodeW { .. } => ("set_node_weight", 10),
            Op::SetEdgeW { .. } => ("set_edge_weight", 11),
            Op::IndexTwice { .. } => ("index_twice_mut", 12),
            Op::RewriteNodeW => ("node_weights_mut", 13),
            Op::RewriteEdgeW => ("edge_weights_mut", 14),
            Op::RetainNodes { .. } => ("retain_nodes", 15),
            Op::RetainEdges { .. } => ("retain_edges", 16),
            Op::Reverse => ("reverse", 17),
            Op::Clear => ("clear", 18),
            Op::ClearEdges => ("clear_edges", 19),
            Op::Map => ("map", 20),
            Op::FilterMap { .. } => ("filter_map", 21),
            Op::Extend { .. } => ("extend_with_edges", 22),
            Op::FromEdges { .. } => ("from_edges", 23),
            Op::IntoEdgeType { .. } => ("into_edge_type", 24),
            Op::Clone { .. } => ("clone", 25),
            Op::Roundtrip => ("convert_roundtrip", 26),
            Op::FromElements => ("from_elements", 27),
            Op::FilterElements { .. } => ("filter_elements", 32),
            Op::Capacity { .. } => ("capacity", 28),
            Op::BulkNodes(_) => ("bulk_add_nodes", 29),
            Op::BulkEdges { .. } => ("bulk_add_edges", 30),
        }
    }
}

pub struct AdjEngine {
    pub stable: bool,
    pub mode: Mode,
}

impl AdjEngine {
    fn prefix(&self) -> &'static str {
        match (self.stable, self.mode) {
            (false, Mode::Refine) => "graph",
            (true, Mode::Refine) => "stable",
            (false, Mode::Visit) => "graph-visit",
            (true, Mode::Visit) => "stable-visit",
        }
    }
}

impl History for AdjEngine {
    type Cfg = Cfg;
    type Op = Op;
    fn name(&self) -> &'static str {
        self.prefix()
    }
    fn rule(&self) -> &'static str {
        "history with >= 3 applied operations, >= 1 edge inserted and >= 1 removal or injected fault"
    }
    fn gen_cfg(&self, rng: &mut Rng, tier: Tier) -> (Cfg, usize) {
        let width = Width::pick(rng);
        let mut size_class = match rng.below(100) {
            0..=29 => 0,
            30..=84 => 1,
            85..=96 => 2,
            _ => 3,
        };
        if size_class == 3 && width != Width::U8 {
            // wider index types: now and then a graph of several hundred to a good thousand
            // elements (bitset words, growth steps and counters of every size get crossed)
            size_class = if rng.chance(1, 3) { 4 } else { 2 };
        }
        if size_class == 4 && self.mode == Mode::Visit {
            // the visit battery compares every pair of nodes in some twenty views: a thousand
            // nodes there would take minutes per state
            size_class = 5;
        }
        let cap = if rng.chance(1, 3) {
            Some((rng.below(20), rng.below(40)))
        } else {
            None
        };
        let fault_permille = *rng.pick(&[0u32, 0, 50, 150, 400]);
        let mut disabled = 0u64;
        for k in 8..=32u64 {
            if rng.chance(1, 4) {
                disabled |= 1 << k;
            }
        }
        if fault_permille == 0 && rng.chance(1, 2) {
            // a purely additive / query run now and then
            if rng.chance(1, 8) {
                disabled |= (1 << 8) | (1 << 9);
            }
        }
        let base = if tier == Tier::Thorough { 28 } else { 18 };
        let len = if size_class >= 3 {
            rng.range(6, 40)
        } else {
            rng.geometric(1, base, 90)
        };
        (
            Cfg {
                stable: self.stable,
                directed: rng.chance(1, 2),
                width,
                cap,
                create_via_trait: rng.chance(1, 4),
                size_class,
                fault_permille,
                disabled,
                obs_seed: rng.next_u64(),
            },
            len,
        )
    }
    fn execute(&self, cfg: &Cfg, feed: OpFeed<Op>, acc: &mut Acc, ops: &mut Vec<Op>) -> Exec {
        macro_rules! go {
            ($ix:ty) => {
                if self.stable {
                    if cfg.directed {
                        start::<StableGraph<u32, u32, Directed, $ix>>(self.prefix(), self.mode, cfg, feed, acc, ops)
                    } else {
                        start::<StableGraph<u32, u32, Undirected, $ix>>(self.prefix(), self.mode, cfg, feed, acc, ops)
                    }
                } else if cfg.directed {
                    start::<Graph<u32, u32, Directed, $ix>>(self.prefix(), self.mode, cfg, feed, acc, ops)
                } else {
                    start::<Graph<u32, u32, Undirected, $ix>>(self.prefix(), self.mode, cfg, feed, acc, ops)
                }
            };
        }
        match cfg.width {
            Width::U8 => go!(u8),
            Width::U16 => go!(u16),
            Width::U32 => go!(u32),
            Width::Usize => go!(usize),
        }
    }
}

// ---------------------------------------------------------------------------------------
// run context
// ---------------------------------------------------------------------------------------

pub struct Ctx<'a> {
    pub prefix: &'static str,
    pub mode: Mode,
    pub cfg: &'a Cfg,
    pub acc: &'a mut Acc,
    pub ops: &'a mut Vec<Op>,
    pub m: AdjModel,
    pub next_w: u32,
    pub step: usize,
    pub obs_rng: Rng,
    pub edges_added: usize,
    pub removals: usize,
    pub faults: usize,
    pub last_was_removal: bool,
    /// the previous snapshot of this run's graph (type-erased: `into_edge_type` changes the
    /// static type), destination of the next `clone_from`
    pub stash: Option<Box<dyn std::any::Any>>,
}

impl Ctx<'_> {
    fn fresh(&mut self) -> u32 {
        self.next_w += 1;
        self.next_w
    }
    fn nontrivial(&self) -> bool {
        self.step >= 3 && self.edges_added >= 1 && (self.removals + self.faults) >= 1
    }
    fn fail(&self, kind: &str, check: &str, detail: String) -> Exec {
        Exec {
            violation: Some(Violation::new(format!("{}/{}/{}", self.prefix, kind, check), detail, self.step)),
            nontrivial: self.nontrivial(),
        }
    }
    fn max_nodes(&self) -> usize {
        match self.cfg.size_class {
            0 => 4,
            1 => 12,
            2 => 40,
            3 => 255,
            5 => 200,
            _ => 1500,
        }
    }
    /// `all_nodes`: probe every live node even in a large graph (needed when the model has to
    /// adopt the physical list order of every node)
    fn plan(&mut self, all_nodes: bool) -> ObsPlan {
        let live = self.m.live_nodes();
        let large = live.len() > 300 && !all_nodes;
        let mut nodes = if large {
            // per-node and per-edge probes on a sample; the whole-graph listings stay complete
            let mut v: Vec<usize> = (0..40).map(|_| live[self.obs_rng.below(live.len())]).collect();
            v.push(live[0]);
            v.push(*live.last().unwrap());
            v.sort();
            v.dedup();
            v
        } else {
            live.clone()
        };
        let slots = self.m.nodes.len();
        // absent probes: vacancies, the bound, beyond, the end marker
        for v in self.m.vacant_nodes().into_iter().take(3) {
            nodes.push(v);
        }
        let mx = self.m.max_index;
        for x in [slots, slots + 1, mx] {
            let x = x.min(mx);
            if !nodes.contains(&x) {
                nodes.push(x);
            }
        }
        let mut edges: Vec<usize> = if large && self.m.edges.len() > 200 {
            let ne = self.m.edges.len();
            let mut v: Vec<usize> = (0..120).map(|_| self.obs_rng.below(ne)).collect();
            v.push(0);
            v.push(ne - 1);
            v.sort();
            v.dedup();
            v
        } else {
            (0..self.m.edges.len()).collect()
        };
        for x in [self.m.edges.len(), self.m.edges.len() + 2, mx] {
            let x = x.min(mx);
            if !edges.contains(&x) {
                edges.push(x);
            }
        }
        let mut pairs = Vec::new();
        if nodes.len() <= 9 {
            for &a in &nodes {
                for &b in &nodes {
                    pairs.push((a, b));
                }
            }
        } else {
            for _ in 0..48 {
                let a = nodes[self.obs_rng.below(nodes.len())];
                let b = nodes[self.obs_rng.below(nodes.len())];
                pairs.push((a, b));
            }
            // bias: real edges and their reverses
            let le = self.m.live_edges();
            for _ in 0..16.min(le.len()) {
                let e = self.m.edge(le[self.obs_rng.below(le.len())]).unwrap();
                pairs.push((e.a, e.b));
                pairs.push((e.b, e.a));
            }
        }
        ObsPlan { nodes, edges, pairs }
    }
}

fn start<S: AdjSut>(prefix: &'static str, mode: Mode, cfg: &Cfg, mut feed: OpFeed<Op>, acc: &mut Acc, ops: &mut Vec<Op>) -> Exec
where
    S::Flipped: AdjSut<Flipped = S>,
{
    let sut = S::create(cfg.cap, cfg.create_via_trait);
    let m = AdjModel::new(!S::STABLE, S::directed(), S::max_index());
    let mut ctx = Ctx {
        prefix,
        mode,
        cfg,
        acc,
        ops,
        m,
        next_w: 1000,
        step: 0,
        obs_rng: Rng::new(cfg.obs_seed),
        edges_added: 0,
        removals: 0,
        faults: 0,
        last_was_removal: false,
        stash: None,
    };
    run_steps(sut, &mut ctx, &mut feed)
}

fn sorted<T: Ord + Clone>(v: &[T]) -> Vec<T> {
    let mut v = v.to_vec();
    v.sort();
    v
}

/// Compare the implementation's observation with the model. Err = (check name, detail).
pub fn check_obs(m: &AdjModel, o: &Obs, plan: &ObsPlan) -> Result<(), (&'static str, String)> {
    macro_rules! ensure {
        ($name:expr, $cond:expr, $($arg:tt)*) => {
            if !($cond) { return Err(($name, format!($($arg)*))); }
        };
    }
    let ordered = m.compact && m.directed;
    let live_n = m.live_nodes();
    let live_e = m.live_edges();
    ensure!("is_directed", o.directed == m.directed, "is_directed() = {} but the graph is {}", o.directed, if m.directed { "directed" } else { "undirected" });
    ensure!("node_count", o.node_count == live_n.len(), "node_count() = {}, model has {} live nodes", o.node_count, live_n.len());
    ensure!("edge_count", o.edge_count == live_e.len(), "edge_count() = {}, model has {} live edges", o.edge_count, live_e.len());
    if m.compact {
        ensure!("node_bound", o.node_bound == live_n.len(), "node_bound() = {} on a compact graph with {} nodes", o.node_bound, live_n.len());
        ensure!("edge_bound", o.edge_bound == live_e.len(), "edge_bound() = {} on a compact graph with {} edges", o.edge_bound, live_e.len());
    } else {
        ensure!("node_bound", o.node_bound >= m.node_bound_min(), "node_bound() = {} but node {} is live", o.node_bound, m.node_bound_min().wrapping_sub(1));
        ensure!("edge_bound", o.edge_bound >= m.edge_bound_min(), "edge_bound() = {} but edge {} is live", o.edge_bound, m.edge_bound_min().wrapping_sub(1));
    }
    ensure!("node_indices", o.node_indices == live_n, "node_indices() = {:?}, model live nodes {:?}", o.node_indices, live_n);
    let mut rev = live_n.clone();
    rev.reverse();
    ensure!("node_indices_rev", o.node_indices_rev == rev, "node_indices().rev() = {:?}, expected {:?}", o.node_indices_rev, rev);
    ensure!("node_indices_len", o.node_indices_len == live_n.len(), "node_indices() length {} vs {} live nodes", o.node_indices_len, live_n.len());
    ensure!("edge_indices", o.edge_indices == live_e, "edge_indices() = {:?}, model live edges {:?}", o.edge_indices, live_e);
    let mut rev = live_e.clone();
    rev.reverse();
    ensure!("edge_indices_rev", o.edge_indices_rev == rev, "edge_indices().rev() = {:?}, expected {:?}", o.edge_indices_rev, rev);
    let nw: Vec<u32> = live_n.iter().map(|&i| m.node(i).unwrap().w).collect();
    ensure!("node_weights", o.node_weights == nw, "node_weights() = {:?}, model {:?}", o.node_weights, nw);
    let ew: Vec<u32> = live_e.iter().map(|&i| m.edge(i).unwrap().w).collect();
    ensure!("edge_weights", o.edge_weights == ew, "edge_weights() = {:?}, model {:?}", o.edge_weights, ew);
    let nr: Vec<(usize, u32)> = live_n.iter().map(|&i| (i, m.node(i).unwrap().w)).collect();
    ensure!("node_references", o.node_refs == nr, "node_references() = {:?}, model {:?}", o.node_refs, nr);
    let mut nrr = nr.clone();
    nrr.reverse();
    ensure!("node_references_rev", o.node_refs_rev == nrr, "node_references().rev() = {:?}, model {:?}", o.node_refs_rev, nrr);
    let er: Vec<EdgeObs> = live_e.iter().map(|&i| { let e = m.edge(i).unwrap(); (i, e.a, e.b, e.w) }).collect();
    ensure!("edge_references", o.edge_refs == er, "edge_references() = {:?}, model {:?}", o.edge_refs, er);
    let mut err = er.clone();
    err.reverse();
    ensure!("edge_references_rev", o.edge_refs_rev == err, "edge_references().rev() = {:?}, model {:?}", o.edge_refs_rev, err);
    ensure!("node_indices_double_ended", o.node_indices_meet == live_n, "node_indices() consumed from both ends = {:?}, model {:?}", o.node_indices_meet, live_n);
    ensure!("edge_indices_double_ended", o.edge_indices_meet == live_e, "edge_indices() consumed from both ends = {:?}, model {:?}", o.edge_indices_meet, live_e);
    ensure!("node_references_double_ended", o.node_refs_meet == nr, "node_references() consumed from both ends = {:?}, model {:?}", o.node_refs_meet, nr);
    ensure!("edge_references_double_ended", o.edge_refs_meet == er, "edge_references() consumed from both ends = {:?}, model {:?}", o.edge_refs_meet, er);
    for (k, (name, len)) in [("node_indices", live_n.len()), ("edge_indices", live_e.len()), ("node_references", live_n.len()), ("edge_references", live_e.len())].into_iter().enumerate() {
        if let Some(&(lo, hi)) = o.size_hints.get(k) {
            ensure!("size_hint", lo <= len && hi.map_or(true, |h| h >= len), "{}().size_hint() = ({}, {:?}) but it yields {} items", name, lo, hi, len);
        }
    }
    ensure!("iterator-protocol", o.protocol.is_empty(), "{}", o.protocol.join("; "));
    for &(is_node, i, w) in &o.index_reads {
        let exp = if is_node { m.node(i).map(|n| n.w) } else { m.edge(i).map(|e| e.w) };
        ensure!("index", exp == Some(w), "g[{} {}] = {}, model {:?}", if is_node { "node" } else { "edge" }, i, w, exp);
    }
    for (e, w, ends, w2) in &o.edge_probe {
        let me = m.edge(*e);
        ensure!("edge_weight", *w == me.map(|x| x.w), "edge_weight({}) = {:?}, model {:?}", e, w, me.map(|x| x.w));
        ensure!("edge_endpoints", *ends == me.map(|x| (x.a, x.b)), "edge_endpoints({}) = {:?}, model {:?}", e, ends, me.map(|x| (x.a, x.b)));
        ensure!("datamap_edge_weight", *w2 == me.map(|x| x.w), "DataMap::edge_weight({}) = {:?}, model {:?}", e, w2, me.map(|x| x.w));
    }
    // externals
    let ext = |outgoing: bool| -> Vec<usize> {
        live_n
            .iter()
            .copied()
            .filter(|&i| {
                let n = m.node(i).unwrap();
                if m.directed {
                    if outgoing { n.out.is_empty() } else { n.inc.is_empty() }
                } else {
                    n.out.is_empty() && n.inc.is_empty()
                }
            })
            .collect()
    };
    ensure!("externals_outgoing", o.externals_out == ext(true), "externals(Outgoing) = {:?}, model {:?}", o.externals_out, ext(true));
    ensure!("externals_incoming", o.externals_in == ext(false), "externals(Incoming) = {:?}, model {:?}", o.externals_in, ext(false));
    if let Some((rn, re)) = o.raw_lens {
        ensure!("raw_nodes_len", rn == live_n.len(), "raw_nodes().len() = {} vs {} nodes", rn, live_n.len());
        ensure!("raw_edges_len", re == live_e.len(), "raw_edges().len() = {} vs {} edges", re, live_e.len());
    }
    // per node
    for no in &o.nodes {
        let a = no.a;
        let mn = m.node(a);
        ensure!("node_weight", no.weight == mn.map(|n| n.w), "node_weight({}) = {:?}, model {:?}", a, no.weight, mn.map(|n| n.w));
        ensure!("datamap_node_weight", no.weight_datamap == mn.map(|n| n.w), "DataMap::node_weight({}) = {:?}, model {:?}", a, no.weight_datamap, mn.map(|n| n.w));
        if let Some(c) = no.contains {
            ensure!("contains_node", c == mn.is_some(), "contains_node({}) = {}, model {}", a, c, mn.is_some());
        }
        let outl = m.out_list(a);
        let inl = m.in_list(a);
        if m.directed {
            let exp_out: Vec<usize> = outl.iter().map(|e| e.2).collect();
            let exp_in: Vec<usize> = inl.iter().map(|e| e.1).collect();
            if ordered {
                ensure!("neighbors", no.nbr == exp_out, "neighbors({}) = {:?}, expected (most recent first) {:?}", a, no.nbr, exp_out);
                ensure!("neighbors_directed_outgoing", no.nbr_out == exp_out, "neighbors_directed({}, Outgoing) = {:?}, expected (most recent first) {:?}", a, no.nbr_out, exp_out);
                ensure!("neighbors_directed_incoming", no.nbr_in == exp_in, "neighbors_directed({}, Incoming) = {:?}, expected (most recent first) {:?}", a, no.nbr_in, exp_in);
                let wo: Vec<(usize, usize)> = outl.iter().map(|e| (e.0, e.2)).collect();
                let wi: Vec<(usize, usize)> = inl.iter().map(|e| (e.0, e.1)).collect();
                ensure!("walker_outgoing", no.walk_out == wo, "detached walker of neighbors_directed({}, Outgoing) = {:?}, expected {:?}", a, no.walk_out, wo);
                ensure!("walker_incoming", no.walk_in == wi, "detached walker of neighbors_directed({}, Incoming) = {:?}, expected {:?}", a, no.walk_in, wi);
            } else {
                ensure!("neighbors", sorted(&no.nbr) == sorted(&exp_out), "neighbors({}) = {:?}, expected multiset {:?}", a, no.nbr, exp_out);
                ensure!("neighbors_directed_outgoing", sorted(&no.nbr_out) == sorted(&exp_out), "neighbors_directed({}, Outgoing) = {:?}, expected multiset {:?}", a, no.nbr_out, exp_out);
                ensure!("neighbors_directed_incoming", sorted(&no.nbr_in) == sorted(&exp_in), "neighbors_directed({}, Incoming) = {:?}, expected multiset {:?}", a, no.nbr_in, exp_in);
                let wo: Vec<(usize, usize)> = outl.iter().map(|e| (e.0, e.2)).collect();
                let wi: Vec<(usize, usize)> = inl.iter().map(|e| (e.0, e.1)).collect();
                ensure!("walker_outgoing", sorted(&no.walk_out) == sorted(&wo), "detached walker Outgoing at {} = {:?}, expected multiset {:?}", a, no.walk_out, wo);
                ensure!("walker_incoming", sorted(&no.walk_in) == sorted(&wi), "detached walker Incoming at {} = {:?}, expected multiset {:?}", a, no.walk_in, wi);
            }
            let mut und: Vec<usize> = exp_out.clone();
            und.extend(inl.iter().filter(|e| e.1 != a).map(|e| e.1));
            ensure!("neighbors_undirected", sorted(&no.nbr_und) == sorted(&und), "neighbors_undirected({}) = {:?}, expected multiset {:?}", a, no.nbr_und, und);
            let wu: Vec<usize> = no.walk_und.iter().map(|x| x.1).collect();
            ensure!("walker_undirected", sorted(&wu) == sorted(&und), "detached walker of neighbors_undirected({}) = {:?}, expected multiset {:?}", a, wu, und);
            let mut wpairs: Vec<(usize, usize)> = outl.iter().map(|e| (e.0, e.2)).collect();
            wpairs.extend(inl.iter().filter(|e| e.1 != a).map(|e| (e.0, e.1)));
            ensure!("walker_undirected_pairs", sorted(&no.walk_und_pairs) == sorted(&wpairs), "detached walker next() of neighbors_undirected({}) = {:?}, expected multiset {:?}", a, no.walk_und_pairs, wpairs);
            ensure!("edges", sorted(&no.edges) == sorted(&outl), "edges({}) = {:?}, expected {:?}", a, no.edges, outl);
            ensure!("edges_directed_outgoing", sorted(&no.edges_out) == sorted(&outl), "edges_directed({}, Outgoing) = {:?}, expected {:?}", a, no.edges_out, outl);
            ensure!("edges_directed_incoming", sorted(&no.edges_in) == sorted(&inl), "edges_directed({}, Incoming) = {:?}, expected {:?}", a, no.edges_in, inl);
        } else {
            let inc = m.incident_once(a);
            let other = |e: &EdgeObs| if e.1 == a { e.2 } else { e.1 };
            let nb: Vec<usize> = inc.iter().map(other).collect();
            for (name, got) in [("neighbors", &no.nbr), ("neighbors_directed_outgoing", &no.nbr_out), ("neighbors_directed_incoming", &no.nbr_in), ("neighbors_undirected", &no.nbr_und)] {
                ensure!(name, sorted(got) == sorted(&nb), "{}({}) = {:?}, expected multiset {:?} (undirected, self-loop once)", name, a, got, nb);
            }
            let as_source: Vec<EdgeObs> = inc.iter().map(|e| (e.0, a, other(e), e.3)).collect();
            let as_target: Vec<EdgeObs> = inc.iter().map(|e| (e.0, other(e), a, e.3)).collect();
            ensure!("edges", sorted(&no.edges) == sorted(&as_source), "edges({}) = {:?}, expected each incident edge once with {} as source: {:?}", a, no.edges, a, as_source);
            ensure!("edges_directed_outgoing", sorted(&no.edges_out) == sorted(&as_source), "edges_directed({}, Outgoing) = {:?}, expected {:?}", a, no.edges_out, as_source);
            ensure!("edges_directed_incoming", sorted(&no.edges_in) == sorted(&as_target), "edges_directed({}, Incoming) = {:?}, expected each incident edge once with {} as target: {:?}", a, no.edges_in, a, as_target);
            let w: Vec<(usize, usize)> = inc.iter().map(|e| (e.0, other(e))).collect();
            ensure!("walker_outgoing", sorted(&no.walk_out) == sorted(&w), "detached walker at {} = {:?}, expected multiset {:?}", a, no.walk_out, w);
            ensure!("walker_incoming", sorted(&no.walk_in) == sorted(&w), "detached walker (Incoming) at {} = {:?}, expected multiset {:?}", a, no.walk_in, w);
            let wu: Vec<usize> = no.walk_und.iter().map(|x| x.1).collect();
            ensure!("walker_undirected", sorted(&wu) == sorted(&nb), "detached walker of neighbors_undirected({}) = {:?}, expected multiset {:?}", a, wu, nb);
            ensure!("walker_undirected_pairs", sorted(&no.walk_und_pairs) == sorted(&w), "detached walker next() of neighbors_undirected({}) = {:?}, expected multiset {:?}", a, no.walk_und_pairs, w);
        }
    }
    // next(), next_node() and next_edge() of one walker kind agree step by step
    for no in &o.nodes {
        let a = no.a;
        let wu: Vec<usize> = no.walk_und.iter().map(|x| x.1).collect();
        let pn: Vec<usize> = no.walk_und_pairs.iter().map(|x| x.1).collect();
        let pe: Vec<usize> = no.walk_und_pairs.iter().map(|x| x.0).collect();
        ensure!("walker_next_node", wu == pn, "walker of neighbors_undirected({}): next_node() gives {:?} but next() gives nodes {:?}", a, wu, pn);
        ensure!("walker_next_edge", no.walk_und_edges == pe, "walker of neighbors_undirected({}): next_edge() gives {:?} but next() gives edges {:?}", a, no.walk_und_edges, pe);
        let oe: Vec<usize> = no.walk_out.iter().map(|x| x.0).collect();
        ensure!("walker_next_edge", no.walk_out_edges == oe, "walker of neighbors_directed({}, Outgoing): next_edge() gives {:?} but next() gives edges {:?}", a, no.walk_out_edges, oe);
    }
    // raw chains (Graph only)
    for (a, co, ci) in &o.chains {
        let eo: Vec<usize> = m.out_list(*a).iter().map(|e| e.0).collect();
        let ei: Vec<usize> = m.in_list(*a).iter().map(|e| e.0).collect();
        ensure!("raw_chain_outgoing", sorted(co) == sorted(&eo), "first_edge/next_edge chain (Outgoing) of node {} = {:?}, model out-edges {:?}", a, co, eo);
        ensure!("raw_chain_incoming", sorted(ci) == sorted(&ei), "first_edge/next_edge chain (Incoming) of node {} = {:?}, model in-edges {:?}", a, ci, ei);
    }
    // pairs
    for p in &o.pairs {
        let (a, b) = (p.a, p.b);
        let joining = m.edges_joining(a, b);
        match p.find {
            Some(e) => ensure!("find_edge", joining.contains(&e), "find_edge({}, {}) = Some({}) which does not join them (candidates {:?})", a, b, e, joining),
            None => ensure!("find_edge", joining.is_empty(), "find_edge({}, {}) = None but edges {:?} join them", a, b, joining),
        }
        ensure!("contains_edge", p.contains == !joining.is_empty(), "contains_edge({}, {}) = {}, model edges {:?}", a, b, p.contains, joining);
        let fwd: Vec<usize> = (0..m.edges.len()).filter(|&i| m.edge(i).map(|e| e.a == a && e.b == b).unwrap_or(false)).collect();
        let bwd: Vec<usize> = (0..m.edges.len()).filter(|&i| m.edge(i).map(|e| e.a == b && e.b == a).unwrap_or(false)).collect();
        match p.find_und {
            Some((e, outgoing)) => {
                let ok = if outgoing { fwd.contains(&e) } else { bwd.contains(&e) };
                ensure!("find_edge_undirected", ok, "find_edge_undirected({}, {}) = ({}, {}) but edges {}->{}: {:?}, {}->{}: {:?}", a, b, e, if outgoing { "Outgoing" } else { "Incoming" }, a, b, fwd, b, a, bwd);
            }
            None => ensure!("find_edge_undirected", fwd.is_empty() && bwd.is_empty(), "find_edge_undirected({}, {}) = None but edges {:?} / {:?} exist", a, b, fwd, bwd),
        }
        let conn: Vec<EdgeObs> = joining.iter().map(|&i| (i, a, b, m.edge(i).unwrap().w)).collect();
        ensure!("edges_connecting", sorted(&p.connecting) == sorted(&conn), "edges_connecting({}, {}) = {:?}, expected {:?}", a, b, p.connecting, conn);
    }
    let _ = plan;
    Ok(())
}

/// Set the model's per-node recency order to the one the implementation shows (after
/// operations that build a *new* graph whose insertion order is the conversion's business).
fn adopt_order(m: &mut AdjModel, o: &Obs) -> Result<(), String> {
    if !m.compact {
        return Ok(());
    }
    // Graph exposes the physical per-node lists through first_edge/next_edge, whatever the
    // edge type currently is.
    for (a, obs_out, obs_in) in &o.chains {
        if m.node(*a).is_none() {
            continue;
        }
        let co: Vec<usize> = m.out_list(*a).iter().map(|e| e.0).collect();
        let ci: Vec<usize> = m.in_list(*a).iter().map(|e| e.0).collect();
        if sorted(obs_out) != sorted(&co) || sorted(obs_in) != sorted(&ci) {
            return Err(format!("node {}: out-edges {:?} / in-edges {:?} observed, model has {:?} / {:?}", a, obs_out, obs_in, co, ci));
        }
        let uid_of = |i: usize| m.edge(i).unwrap().uid;
        let new_out: Vec<u64> = obs_out.iter().map(|&i| uid_of(i)).collect();
        let new_in: Vec<u64> = obs_in.iter().map(|&i| uid_of(i)).collect();
        let n = m.nodes[*a].as_mut().unwrap();
        n.out = new_out;
        n.inc = new_in;
    }
    Ok(())
}

// ---------------------------------------------------------------------------------------
// generation
// ---------------------------------------------------------------------------------------

fn pick_node(rng: &mut Rng, cx: &Ctx, force_bad: bool) -> usize {
    let live = cx.m.live_nodes();
    let bad = force_bad || live.is_empty() || (rng.below(1000) as u32) < cx.cfg.fault_permille;
    if !bad {
        return live[rng.below(live.len())];
    }
    let mx = cx.m.max_index;
    let vac = cx.m.vacant_nodes();
    let slots = cx.m.nodes.len();
    match rng.below(6) {
        0 | 1 if !vac.is_empty() => vac[rng.below(vac.len())],
        0 | 1 | 2 => slots.min(mx),
        3 => (slots + 1 + rng.below(3)).min(mx),
        _ => mx,
    }
}

fn pick_edge(rng: &mut Rng, cx: &Ctx) -> usize {
    let live = cx.m.live_edges();
    let bad = live.is_empty() || (rng.below(1000) as u32) < cx.cfg.fault_permille;
    if !bad {
        return live[rng.below(live.len())];
    }
    let mx = cx.m.max_index;
    let vac = cx.m.vacant_edges();
    let slots = cx.m.edges.len();
    match rng.below(6) {
        0 | 1 if !vac.is_empty() => vac[rng.below(vac.len())],
        0 | 1 | 2 => slots.min(mx),
        3 => (slots + 1 + rng.below(3)).min(mx),
        _ => mx,
    }
}

fn gen_edge_list(rng: &mut Rng, cx: &Ctx, from_scratch: bool) -> Vec<(usize, usize)> {
    let k = rng.range(0, 5);
    if cx.m.max_index <= 255 && cx.cfg.fault_permille > 0 && rng.chance(1, 6) {
        // a list that names the reserved end() index (or needs more nodes than the index type has)
        let mx = cx.m.max_index;
        return vec![(rng.below(3), *rng.pick(&[mx, mx - 1, mx]))];
    }
    let hi = if from_scratch { rng.range(1, 6) } else { cx.m.nodes.len() + rng.below(4) };
    let hi = hi.min(cx.m.max_index.saturating_sub(1)).max(1);
    (0..k).map(|_| (rng.below(hi + 1).min(hi), rng.below(hi + 1).min(hi))).collect()
}

fn gen_op(rng: &mut Rng, cx: &Ctx, stable: bool) -> Op {
    let n = cx.m.n_live();
    let mcount = cx.m.m_live();
    let maxn = cx.max_nodes();
    // capacity runs start by filling up
    if cx.cfg.size_class == 4 && cx.step < 2 {
        return if cx.step == 0 {
            Op::BulkNodes(*rng.pick(&[130usize, 300, 520, 1030, 1300]))
        } else {
            // now and then several thousand edges (batch code paths that only exist for big inputs)
            Op::BulkEdges { k: *rng.pick(&[70usize, 260, 600, 1100, 1100, 4200, 5300]), seed: rng.next_u64() }
        };
    }
    if cx.cfg.size_class == 5 && cx.step < 2 {
        return if cx.step == 0 {
            Op::BulkNodes(*rng.pick(&[66usize, 100, 130]))
        } else {
            Op::BulkEdges { k: *rng.pick(&[70usize, 140]), seed: rng.next_u64() }
        };
    }
    if cx.cfg.size_class == 3 && cx.step < 2 {
        return if cx.step == 0 {
            Op::BulkNodes(rng.range(245, 256))
        } else {
            Op::BulkEdges { k: rng.range(240, 258), seed: rng.next_u64() }
        };
    }
    // a failing insertion right after a removal (in-flight state on the free lists)
    if cx.last_was_removal && cx.cfg.fault_permille > 0 && rng.chance(1, 3) {
        return if rng.chance(2, 3) {
            let bad_first = rng.chance(1, 2);
            let a = pick_node(rng, cx, bad_first);
            let b = pick_node(rng, cx, !bad_first);
            Op::AddEdge { a, b, mode: *rng.pick(&[EdgeMode::TryAdd, EdgeMode::TryUpdate, EdgeMode::Add]) }
        } else {
            Op::AddNode { try_: true, via_build: false }
        };
    }
    for _attempt in 0..20 {
        let r = rng.below(100);
        let op = match r {
            0..=11 => {
                if n >= maxn && cx.cfg.size_class != 3 {
                    continue;
                }
                match rng.below(4) {
                    0 => Op::AddNode { try_: true, via_build: false },
                    1 if rng.chance(1, 2) => Op::AddNode { try_: false, via_build: true },
                    _ => Op::AddNode { try_: false, via_build: false },
                }
            }
            12..=43 => {
                if mcount >= maxn * 3 && cx.cfg.size_class != 3 {
                    continue;
                }
                let a = pick_node(rng, cx, false);
                let b = match rng.below(10) {
                    0 => a,
                    1 | 2 => {
                        // bias towards an existing neighbour: parallel edges / update hits
                        match cx.m.node(a).and_then(|nd| nd.out.first().copied()) {
                            Some(_) => cx.m.out_list(a)[0].2,
                            None => pick_node(rng, cx, false),
                        }
                    }
                    _ => pick_node(rng, cx, false),
                };
                let mode = *rng.pick(&[EdgeMode::Add, EdgeMode::Add, EdgeMode::Add, EdgeMode::TryAdd, EdgeMode::TryAdd, EdgeMode::Update, EdgeMode::TryUpdate, EdgeMode::BuildAdd, EdgeMode::BuildUpdate]);
                Op::AddEdge { a, b, mode }
            }
            44..=51 => Op::RemoveNode(pick_node(rng, cx, false)),
            52..=60 => Op::RemoveEdge(pick_edge(rng, cx)),
            61..=63 => Op::SetNodeW { a: pick_node(rng, cx, false), how: *rng.pick(&[WHow::WeightMut, WHow::IndexMut, WHow::DataMapMut, WHow::FrozenIndexMut]) },
            64..=66 => Op::SetEdgeW { e: pick_edge(rng, cx), how: *rng.pick(&[WHow::WeightMut, WHow::IndexMut, WHow::DataMapMut, WHow::FrozenIndexMut]) },
            67..=68 => {
                let kind = rng.below(4) as u8;
                // kind: 0 = (n,n) 1 = (n,e) 2 = (e,n) 3 = (e,e); +4 = through Frozen
                let i = if kind < 2 { pick_node(rng, cx, false) } else { pick_edge(rng, cx) };
                let j = if kind == 0 || kind == 2 { pick_node(rng, cx, false) } else { pick_edge(rng, cx) };
                let j = if rng.chance(1, 8) && (kind == 0 || kind == 3) { i } else { j };
                Op::IndexTwice { kind: if rng.chance(1, 3) { kind + 4 } else { kind }, i, j }
            }
            69 => Op::RewriteNodeW,
            70 => Op::RewriteEdgeW,
            71..=72 => Op::RetainNodes { seed: rng.next_u64(), keep: *rng.pick(&[0u32, 300, 600, 850, 1000]), touch: rng.chance(1, 3) },
            73..=74 => Op::RetainEdges { seed: rng.next_u64(), keep: *rng.pick(&[0u32, 300, 600, 850, 1000]), touch: rng.chance(1, 3) },
            75..=78 => Op::Reverse,
            79 => {
                if rng.chance(1, 3) {
                    Op::Clear
                } else {
                    continue;
                }
            }
            80 => Op::ClearEdges,
            81 => Op::Map,
            82..=83 => Op::FilterMap { seed: rng.next_u64(), keep_n: *rng.pick(&[400u32, 800, 1000, 1000]), keep_e: *rng.pick(&[400u32, 800, 1000]) },
            84..=86 => Op::Extend { edges: gen_edge_list(rng, cx, false) },
            87 => {
                if cx.step > 3 && !rng.chance(1, 4) {
                    continue;
                }
                Op::FromEdges { edges: gen_edge_list(rng, cx, true) }
            }
            88..=89 => {
                if stable {
                    continue;
                }
                Op::IntoEdgeType { directed: rng.chance(1, 2) }
            }
            90 => Op::Clone { clone_from: rng.chance(1, 2) },
            91..=93 => Op::Roundtrip,
            94 => {
                if rng.chance(1, 2) {
                    Op::FromElements
                } else {
                    Op::FilterElements { seed: rng.next_u64(), keep_n: *rng.pick(&[500u32, 800, 1000, 1000]), keep_e: *rng.pick(&[500u32, 800, 1000]) }
                }
            }
            95 => Op::Capacity { which: rng.below(7) as u8, n: rng.below(50) },
            _ => Op::AddEdge { a: pick_node(rng, cx, false), b: pick_node(rng, cx, false), mode: EdgeMode::Add },
        };
        let code = op.kind().1 as u64;
        if cx.cfg.disabled & (1 << code) != 0 {
            continue;
        }
        return op;
    }
    Op::AddNode { try_: false, via_build: false }
}

// ---------------------------------------------------------------------------------------
// execution
// ---------------------------------------------------------------------------------------

fn run_steps<S: AdjSut>(mut sut: S, cx: &mut Ctx, feed: &mut OpFeed<Op>) -> Exec
where
    S::Flipped: AdjSut<Flipped = S>,
{
    loop {
        let op = match feed.next(|rng| gen_op(rng, cx, S::STABLE)) {
            Some(op) => op,
            None => break,
        };
        cx.ops.push(op.clone());
        let (kind, code) = op.kind();
        cx.acc.op(kind, code);
        cx.last_was_removal = false;

        // IntoEdgeType changes the static type: continue in the flipped instantiation
        if let Op::IntoEdgeType { directed } = &op {
            if !S::STABLE && *directed != S::directed() {
                let flipped = match catch(|| sut.flip()) {
                    Ok(f) => f,
                    Err(p) => return cx.fail(kind, "panic", format!("into_edge_type panicked: {}", p)),
                };
                cx.m.directed = *directed;
                let plan = cx.plan(false);
                let obs = match catch(|| flipped.snapshot(&plan)) {
                    Ok(o) => o,
                    Err(p) => return cx.fail(kind, "observe-panic", format!("query panicked after into_edge_type: {}", p)),
                };
                if cx.mode == Mode::Refine {
                    if let Err((c, d)) = check_obs(&cx.m, &obs, &plan) {
                        return cx.fail(kind, c, d);
                    }
                }
                cx.acc.state(cx.m.hash());
                cx.step += 1;
                return run_steps::<S::Flipped>(flipped, cx, feed);
            }
            // same type requested: nothing to do
            cx.step += 1;
            continue;
        }

        match apply(&mut sut, cx, &op, kind) {
            Ok(()) => {}
            Err(ex) => return ex,
        }
        cx.step += 1;
    }
    Exec { violation: None, nontrivial: cx.nontrivial() }
}

/// Would this extend list hit an index-type limit (outside the generated domain)?
fn extend_overflows(m: &AdjModel, edges: &[(usize, usize)]) -> bool {
    if m.max_index == usize::MAX {
        return false;
    }
    let mut slots = m.nodes.len();
    let mut live = m.n_live();
    let mut live_set: BTreeSet<usize> = m.live_nodes().into_iter().collect();
    let mut ecount = m.m_live();
    for &(a, b) in edges {
        for x in [a, b] {
            if x >= m.max_index {
                return true;
            }
            if m.compact {
                while x >= slots {
                    live_set.insert(slots);
                    slots += 1;
                    live += 1;
                }
            } else if !live_set.contains(&x) {
                live_set.insert(x);
                live += 1;
                slots = slots.max(x + 1);
            }
        }
        ecount += 1;
        if slots > m.max_index || live > m.max_index || ecount > m.max_index {
            return true;
        }
    }
    false
}

fn apply<S: AdjSut>(sut: &mut S, cx: &mut Ctx, op: &Op, kind: &'static str) -> Result<(), Exec> {
    macro_rules! fail {
        ($check:expr, $($arg:tt)*) => { return Err(cx.fail(kind, $check, format!($($arg)*))) };
    }
    let plan_before = cx.plan(false);
    // snapshot before: used for "an error/None/panic leaves everything unchanged"
    let mut before: Option<Obs> = None;
    let mut need_before = |sut: &S| -> Result<Obs, String> { catch(|| sut.snapshot(&plan_before)) };
    let mut expect_unchanged = false;
    let mut need_adopt = false;
    let mx = cx.m.max_index;

    match op {
        Op::AddNode { try_, via_build } => {
            let limit = cx.m.node_limit_reached();
            if limit {
                cx.acc.fault("index_limit_nodes");
                cx.faults += 1;
                before = Some(need_before(sut).map_err(|p| cx.fail(kind, "observe-panic", p))?);
                expect_unchanged = true;
            }
            let w = cx.fresh();
            let res: Result<Result<usize, GErr>, String> = if *try_ {
                catch(|| sut.try_add_node(w))
            } else {
                catch(|| sut.add_node(w, *via_build)).map(Ok)
            };
            match (res, limit) {
                (Ok(Ok(idx)), false) => {
                    if cx.m.compact {
                        if idx != cx.m.nodes.len() {
                            fail!("index", "new node got index {}, expected {}", idx, cx.m.nodes.len());
                        }
                    } else {
                        if cx.m.node(idx).is_some() {
                            fail!("index-live", "new node got index {} which is currently live", idx);
                        }
                        if idx >= mx || (idx > cx.m.nodes.len() + 64 && idx >= (1 << 20)) {
                            fail!("index-range", "new node got implausible index {} ({} slots in use)", idx, cx.m.nodes.len());
                        }
                        cx.acc.probe_if(idx < cx.m.nodes.len(), "stable_node_vacancy_reused");
                    }
                    cx.m.insert_node(idx, w);
                }
                (Ok(Ok(idx)), true) => fail!("limit-ignored", "node {} added although all {} indices of the index type are in use", idx, mx),
                (Ok(Err(e)), true) => {
                    if e != GErr::NodeIxLimit {
                        fail!("wrong-error", "try_add_node at the index limit returned {:?}", e);
                    }
                    cx.acc.probe("node_index_limit_hit");
                }
                (Ok(Err(e)), false) => fail!("spurious-error", "try_add_node returned {:?} with {} of {} indices in use", e, cx.m.n_live(), mx),
                (Err(_), true) if !*try_ => {
                    cx.acc.fault("documented_panic");
                    cx.acc.probe("node_index_limit_hit");
                }
                (Err(p), _) => fail!("panic", "{} panicked: {}", kind, p),
            }
        }
        Op::AddEdge { a, b, mode } => {
            let (a, b) = ((*a).min(mx), (*b).min(mx));
            let joining = cx.m.edges_joining(a, b);
            let w = cx.fresh();
            if mode.is_update() && !joining.is_empty() {
                match catch(|| sut.add_edge(a, b, w, *mode)) {
                    Ok(Ok(e)) => {
                        if !joining.contains(&e) {
                            fail!("updated-wrong-edge", "{}({}, {}) returned edge {} which does not join them (candidates {:?})", kind, a, b, e, joining);
                        }
                        cx.m.edges[e].as_mut().unwrap().w = w;
                        cx.acc.probe("update_edge_hit_existing");
                    }
                    Ok(Err(e)) => fail!("spurious-error", "{}({}, {}) returned {:?} although edge(s) {:?} exist", kind, a, b, e, joining),
                    Err(p) => fail!("panic", "{}({}, {}) panicked although the edge exists: {}", kind, a, b, p),
                }
            } else {
                let limit = cx.m.edge_limit_reached();
                let miss_a = cx.m.node(a).is_none();
                let miss_b = cx.m.node(b).is_none();
                let bad = limit || miss_a || miss_b;
                if bad {
                    if limit {
                        cx.acc.fault("index_limit_edges");
                    }
                    if miss_a || miss_b {
                        cx.acc.fault("absent_endpoint");
                        cx.acc.probe_if(!cx.m.vacant_edges().is_empty(), "failed_add_edge_with_free_edge_slot");
                    }
                    cx.faults += 1;
                    before = Some(need_before(sut).map_err(|p| cx.fail(kind, "observe-panic", p))?);
                    expect_unchanged = true;
                }
                match (catch(|| sut.add_edge(a, b, w, *mode)), bad) {
                    (Ok(Ok(e)), false) => {
                        if cx.m.compact {
                            if e != cx.m.edges.len() {
                                fail!("index", "new edge got index {}, expected {}", e, cx.m.edges.len());
                            }
                        } else {
                            if cx.m.edge(e).is_some() {
                                fail!("index-live", "new edge got index {} which is currently live", e);
                            }
                            if e >= mx || (e > cx.m.edges.len() + 64 && e >= (1 << 20)) {
                                fail!("index-range", "new edge got implausible index {} ({} slots in use)", e, cx.m.edges.len());
                            }
                            cx.acc.probe_if(e < cx.m.edges.len(), "stable_edge_vacancy_reused");
                        }
                        cx.m.insert_edge(e, a, b, w);
                        cx.edges_added += 1;
                        cx.acc.probe_if(a == b, "self_loop_added");
                    }
                    (Ok(Ok(e)), true) => fail!("error-ignored", "{}({}, {}) returned Ok({}) but {}", kind, a, b, e, if limit { "the edge index space is full" } else { "an endpoint does not exist" }),
                    (Ok(Err(e)), true) => {
                        let ok = match e {
                            GErr::EdgeIxLimit => limit,
                            GErr::NodeMissing(None) => miss_a || miss_b,
                            GErr::NodeMissing(Some(i)) => (i == a && miss_a) || (i == b && miss_b),
                            GErr::NodeIxLimit => false,
                        };
                        if !ok {
                            fail!("wrong-error", "{}({}, {}) returned {:?} (limit reached: {}, a missing: {}, b missing: {})", kind, a, b, e, limit, miss_a, miss_b);
                        }
                        cx.acc.probe_if(limit, "edge_index_limit_hit");
                    }
                    (Ok(Err(e)), false) => fail!("spurious-error", "{}({}, {}) returned {:?} on live endpoints with {} of {} edge indices in use", kind, a, b, e, cx.m.m_live(), mx),
                    (Err(_), true) if !mode.is_try() => {
                        cx.acc.fault("documented_panic");
                        cx.acc.probe_if(limit, "edge_index_limit_hit");
                    }
                    (Err(p), _) => fail!("panic", "{}({}, {}) panicked: {}", kind, a, b, p),
                }
            }
        }
        Op::RemoveNode(a) => {
            let a = (*a).min(mx);
            let live = cx.m.node(a).map(|n| n.w);
            if live.is_none() {
                cx.acc.fault("absent_index");
                cx.faults += 1;
                before = Some(need_before(sut).map_err(|p| cx.fail(kind, "observe-panic", p))?);
                expect_unchanged = true;
            } else {
                let nd = cx.m.node(a).unwrap();
                cx.acc.probe_if(nd.out.iter().any(|u| nd.inc.contains(u)), "removed_node_with_self_loop");
                cx.acc.probe_if(cx.m.compact && a + 1 != cx.m.nodes.len(), "graph_remove_non_last_node");
                if cx.m.compact && a + 1 != cx.m.nodes.len() {
                    let last = cx.m.node(cx.m.nodes.len() - 1).unwrap();
                    cx.acc.probe_if(last.out.iter().any(|u| last.inc.contains(u)), "swap_relocated_node_with_self_loop");
                }
            }
            match catch(|| sut.remove_node(a)) {
                Ok(r) => {
                    if r != live {
                        fail!("result", "remove_node({}) = {:?}, model {:?}", a, r, live);
                    }
                }
                Err(p) => fail!("panic", "remove_node({}) panicked: {}", a, p),
            }
            if live.is_some() {
                cx.removals += 1;
                cx.last_was_removal = true;
                let (nl, el) = match catch(|| (sut.node_listing(), sut.edge_listing())) {
                    Ok(x) => x,
                    Err(p) => fail!("observe-panic", "listing after remove_node panicked: {}", p),
                };
                let dead: BTreeSet<usize> = [a].into_iter().collect();
                if let Err(d) = cx.m.remove_many(&dead, &BTreeSet::new(), &nl, &el) {
                    fail!("renumbering", "after remove_node({}): {}", a, d);
                }
            }
        }
        Op::RemoveEdge(e) => {
            let e = (*e).min(mx);
            let live = cx.m.edge(e).map(|x| x.w);
            if live.is_none() {
                cx.acc.fault("absent_index");
                cx.faults += 1;
                before = Some(need_before(sut).map_err(|p| cx.fail(kind, "observe-panic", p))?);
                expect_unchanged = true;
            } else {
                cx.acc.probe_if(cx.m.compact && e + 1 != cx.m.edges.len(), "graph_remove_non_last_edge");
            }
            match catch(|| sut.remove_edge(e)) {
                Ok(r) => {
                    if r != live {
                        fail!("result", "remove_edge({}) = {:?}, model {:?}", e, r, live);
                    }
                }
                Err(p) => fail!("panic", "remove_edge({}) panicked: {}", e, p),
            }
            if live.is_some() {
                cx.removals += 1;
                cx.last_was_removal = true;
                let (nl, el) = match catch(|| (sut.node_listing(), sut.edge_listing())) {
                    Ok(x) => x,
                    Err(p) => fail!("observe-panic", "listing after remove_edge panicked: {}", p),
                };
                let dead: BTreeSet<usize> = [e].into_iter().collect();
                if let Err(d) = cx.m.remove_many(&BTreeSet::new(), &dead, &nl, &el) {
                    fail!("renumbering", "after remove_edge({}): {}", e, d);
                }
            }
        }
        Op::SetNodeW { a, how } => {
            let a = (*a).min(mx);
            let live = cx.m.node(a).is_some();
            let w = cx.fresh();
            if !live {
                cx.acc.fault("absent_index");
                cx.faults += 1;
                before = Some(need_before(sut).map_err(|p| cx.fail(kind, "observe-panic", p))?);
                expect_unchanged = true;
            }
            let panics = matches!(how, WHow::IndexMut | WHow::FrozenIndexMut);
            match (catch(|| sut.set_node_w(a, w, *how)), live) {
                (Ok(true), true) => cx.m.nodes[a].as_mut().unwrap().w = w,
                (Ok(false), false) => {}
                (Err(_), false) if panics => cx.acc.fault("documented_panic"),
                (Ok(r), _) => fail!("result", "node weight access {:?}({}) found={} but model live={}", how, a, r, live),
                (Err(p), _) => fail!("panic", "node weight access {:?}({}) panicked: {}", how, a, p),
            }
        }
        Op::SetEdgeW { e, how } => {
            let e = (*e).min(mx);
            let live = cx.m.edge(e).is_some();
            let w = cx.fresh();
            if !live {
                cx.acc.fault("absent_index");
                cx.faults += 1;
                before = Some(need_before(sut).map_err(|p| cx.fail(kind, "observe-panic", p))?);
                expect_unchanged = true;
            }
            let panics = matches!(how, WHow::IndexMut | WHow::FrozenIndexMut);
            match (catch(|| sut.set_edge_w(e, w, *how)), live) {
                (Ok(true), true) => cx.m.edges[e].as_mut().unwrap().w = w,
                (Ok(false), false) => {}
                (Err(_), false) if panics => cx.acc.fault("documented_panic"),
                (Ok(r), _) => fail!("result", "edge weight access {:?}({}) found={} but model live={}", how, e, r, live),
                (Err(p), _) => fail!("panic", "edge weight access {:?}({}) panicked: {}", how, e, p),
            }
        }
        Op::IndexTwice { kind: k, i, j } => {
            let frozen = *k & 4 != 0;
            let k = &(*k & 3);
            let (i, j) = ((*i).min(mx), (*j).min(mx));
            let first_is_node = *k < 2;
            let second_is_node = *k == 0 || *k == 2;
            let live1 = if first_is_node { cx.m.node(i).is_some() } else { cx.m.edge(i).is_some() };
            let live2 = if second_is_node { cx.m.node(j).is_some() } else { cx.m.edge(j).is_some() };
            let same = first_is_node == second_is_node && i == j;
            let ok = live1 && live2 && !same;
            let (w1, w2) = (cx.fresh(), cx.fresh());
            if !ok {
                cx.acc.fault(if same { "equal_indices" } else { "absent_index" });
                cx.faults += 1;
                before = Some(need_before(sut).map_err(|p| cx.fail(kind, "observe-panic", p))?);
                // a documented panic may have written the first of the two weights? No: the
                // assertion / lookup happens before any write is handed out.
                expect_unchanged = true;
            }
            match (catch(|| sut.index_twice(*k, i, j, w1, w2, frozen)), ok) {
                (Ok(()), true) => {
                    if first_is_node { cx.m.nodes[i].as_mut().unwrap().w = w1 } else { cx.m.edges[i].as_mut().unwrap().w = w1 }
                    if second_is_node { cx.m.nodes[j].as_mut().unwrap().w = w2 } else { cx.m.edges[j].as_mut().unwrap().w = w2 }
                }
                (Err(_), false) => cx.acc.fault("documented_panic"),
                (Ok(()), false) => fail!("missing-panic", "index_twice_mut(kind {}, {}, {}) returned although the indices are {}", k, i, j, if same { "equal" } else { "not both present" }),
                (Err(p), true) => fail!("panic", "index_twice_mut(kind {}, {}, {}) panicked on valid distinct indices: {}", k, i, j, p),
            }
        }
        Op::RewriteNodeW | Op::RewriteEdgeW => {
            let nodes = matches!(op, Op::RewriteNodeW);
            let mut nw = cx.next_w;
            let log = match catch(|| if nodes { sut.rewrite_node_weights(&mut nw) } else { sut.rewrite_edge_weights(&mut nw) }) {
                Ok(l) => l,
                Err(p) => fail!("panic", "{} panicked: {}", kind, p),
            };
            cx.next_w = nw;
            let live = if nodes { cx.m.live_nodes() } else { cx.m.live_edges() };
            if log.len() != live.len() {
                fail!("count", "{} yielded {} weights for {} live elements", kind, log.len(), live.len());
            }
            for (pos, &i) in live.iter().enumerate() {
                let cur = if nodes { cx.m.node(i).unwrap().w } else { cx.m.edge(i).unwrap().w };
                if log[pos].0 != cur {
                    fail!("order", "{} position {} yielded weight {} but index order says element {} with weight {}", kind, pos, log[pos].0, i, cur);
                }
                if nodes { cx.m.nodes[i].as_mut().unwrap().w = log[pos].1 } else { cx.m.edges[i].as_mut().unwrap().w = log[pos].1 }
            }
        }
        Op::RetainNodes { seed, keep, touch } | Op::RetainEdges { seed, keep, touch } => {
            let nodes = matches!(op, Op::RetainNodes { .. });
            let mut nw = cx.next_w;
            let mut log: VisitLog = Vec::new();
            let r = catch(|| if nodes { sut.retain_nodes(*seed, *keep, *touch, &mut nw, &mut log) } else { sut.retain_edges(*seed, *keep, *touch, &mut nw, &mut log) });
            cx.next_w = nw;
            if let Err(p) = r {
                fail!("panic", "{} panicked: {}", kind, p);
            }
            // every element that was live when the call started and is not removed as a
            // consequence of an earlier removal must be visited exactly once
            let mut by_w: BTreeMap<u32, (Option<u32>, bool)> = BTreeMap::new();
            for (_, w, nw, k) in &log {
                if by_w.insert(*w, (*nw, *k)).is_some() {
                    fail!("visited-twice", "{} visited the element with weight {} twice", kind, w);
                }
            }
            let mut dead = BTreeSet::new();
            if nodes {
                for i in cx.m.live_nodes() {
                    let w = cx.m.node(i).unwrap().w;
                    match by_w.get(&w) {
                        None => fail!("not-visited", "retain_nodes never visited live node {} (weight {})", i, w),
                        Some((nw, k)) => {
                            if !*k { dead.insert(i); } else if let Some(nw) = nw { cx.m.nodes[i].as_mut().unwrap().w = *nw; }
                        }
                    }
                }
                if by_w.len() != cx.m.n_live() {
                    fail!("visited-unknown", "retain_nodes visited {} elements, {} nodes were live", by_w.len(), cx.m.n_live());
                }
            } else {
                for i in cx.m.live_edges() {
                    let w = cx.m.edge(i).unwrap().w;
                    match by_w.get(&w) {
                        None => fail!("not-visited", "retain_edges never visited live edge {} (weight {})", i, w),
                        Some((nw, k)) => {
                            if !*k { dead.insert(i); } else if let Some(nw) = nw { cx.m.edges[i].as_mut().unwrap().w = *nw; }
                        }
                    }
                }
                if by_w.len() != cx.m.m_live() {
                    fail!("visited-unknown", "retain_edges visited {} elements, {} edges were live", by_w.len(), cx.m.m_live());
                }
            }
            if !dead.is_empty() {
                cx.removals += 1;
                cx.last_was_removal = true;
            }
            let (nl, el) = match catch(|| (sut.node_listing(), sut.edge_listing())) {
                Ok(x) => x,
                Err(p) => fail!("observe-panic", "listing after {} panicked: {}", kind, p),
            };
            let res = if nodes { cx.m.remove_many(&dead, &BTreeSet::new(), &nl, &el) } else { cx.m.remove_many(&BTreeSet::new(), &dead, &nl, &el) };
            if let Err(d) = res {
                fail!("renumbering", "after {}: {}", kind, d);
            }
        }
        Op::Reverse => {
            cx.acc.probe_if(!cx.m.vacant_nodes().is_empty() || !cx.m.vacant_edges().is_empty(), "reverse_with_vacancies");
            if let Err(p) = catch(|| sut.reverse()) {
                fail!("panic", "reverse panicked: {}", p);
            }
            cx.m.reverse();
        }
        Op::Clear => {
            if let Err(p) = catch(|| sut.clear()) {
                fail!("panic", "clear panicked: {}", p);
            }
            cx.m.clear();
        }
        Op::ClearEdges => {
            cx.acc.probe_if(!cx.m.vacant_nodes().is_empty(), "clear_edges_with_node_vacancies");
            if let Err(p) = catch(|| sut.clear_edges()) {
                fail!("panic", "clear_edges panicked: {}", p);
            }
            cx.m.clear_edges();
        }
        Op::Map => {
            let mut nw = cx.next_w;
            let (mut nlog, mut elog): (VisitLog, VisitLog) = (Vec::new(), Vec::new());
            let r = catch(|| sut.map_replace(&mut nw, &mut nlog, &mut elog));
            cx.next_w = nw;
            if let Err(p) = r {
                fail!("panic", "map panicked: {}", p);
            }
            let live_n = cx.m.live_nodes();
            let live_e = cx.m.live_edges();
            let exp_n: Vec<(usize, u32)> = live_n.iter().map(|&i| (i, cx.m.node(i).unwrap().w)).collect();
            let got_n: Vec<(usize, u32)> = nlog.iter().map(|x| (x.0, x.1)).collect();
            if sorted(&got_n) != exp_n {
                fail!("node-closure-args", "map called the node closure with {:?}, live nodes are {:?}", got_n, exp_n);
            }
            let exp_e: Vec<(usize, u32)> = live_e.iter().map(|&i| (i, cx.m.edge(i).unwrap().w)).collect();
            let got_e: Vec<(usize, u32)> = elog.iter().map(|x| (x.0, x.1)).collect();
            if sorted(&got_e) != exp_e {
                fail!("edge-closure-args", "map called the edge closure with {:?}, live edges are {:?}", got_e, exp_e);
            }
            for (i, _, nw, _) in &nlog {
                cx.m.nodes[*i].as_mut().unwrap().w = nw.unwrap();
            }
            for (i, _, nw, _) in &elog {
                cx.m.edges[*i].as_mut().unwrap().w = nw.unwrap();
            }
            need_adopt = true;
        }
        Op::FilterMap { seed, keep_n, keep_e } => {
            let mut nw = cx.next_w;
            let (mut nlog, mut elog): (VisitLog, VisitLog) = (Vec::new(), Vec::new());
            let r = catch(|| sut.filter_map_replace(*seed, *keep_n, *keep_e, &mut nw, &mut nlog, &mut elog));
            cx.next_w = nw;
            if let Err(p) = r {
                fail!("panic", "filter_map panicked: {}", p);
            }
            let live_n = cx.m.live_nodes();
            let exp_n: Vec<(usize, u32)> = live_n.iter().map(|&i| (i, cx.m.node(i).unwrap().w)).collect();
            let got_n: Vec<(usize, u32)> = nlog.iter().map(|x| (x.0, x.1)).collect();
            if sorted(&got_n) != exp_n {
                fail!("node-closure-args", "filter_map called the node closure with {:?}, live nodes are {:?}", got_n, exp_n);
            }
            let dead_n: BTreeSet<usize> = nlog.iter().filter(|x| !x.3).map(|x| x.0).collect();
            // the edge closure is called exactly for edges with both endpoints kept
            let exp_e: Vec<(usize, u32)> = cx.m.live_edges().iter().filter_map(|&i| { let e = cx.m.edge(i).unwrap(); if dead_n.contains(&e.a) || dead_n.contains(&e.b) { None } else { Some((i, e.w)) } }).collect();
            let got_e: Vec<(usize, u32)> = elog.iter().map(|x| (x.0, x.1)).collect();
            if sorted(&got_e) != exp_e {
                fail!("edge-closure-args", "filter_map called the edge closure with {:?}, edges with both endpoints kept are {:?}", got_e, exp_e);
            }
            let dead_e: BTreeSet<usize> = elog.iter().filter(|x| !x.3).map(|x| x.0).collect();
            for (i, _, nw, k) in &nlog {
                if *k { cx.m.nodes[*i].as_mut().unwrap().w = nw.unwrap(); }
            }
            for (i, _, nw, k) in &elog {
                if *k { cx.m.edges[*i].as_mut().unwrap().w = nw.unwrap(); }
            }
            let (nl, el) = match catch(|| (sut.node_listing(), sut.edge_listing())) {
                Ok(x) => x,
                Err(p) => fail!("observe-panic", "listing after filter_map panicked: {}", p),
            };
            let before_n: Vec<usize> = cx.m.live_nodes();
            let before_e: Vec<usize> = cx.m.live_edges();
            let was_compact = cx.m.compact;
            // filter_map builds a new graph: any bijection onto the compact range is legal,
            // except for the documented index guarantees checked below
            if was_compact {
                cx.m.compact = false;
            }
            let _ = cx.m.remove_many(&dead_n, &dead_e, &nl, &el);
            if was_compact {
                cx.m.compact = true;
                if let Err(d) = compact_by_weights(&mut cx.m, &nl, &el) {
                    fail!("renumbering", "after filter_map: {}", d);
                }
                if dead_n.is_empty() && cx.m.live_nodes() != before_n {
                    fail!("node-indices-changed", "filter_map removed no node but node indices changed");
                }
                if dead_n.is_empty() && dead_e.is_empty() {
                    if cx.m.live_edges() != before_e {
                        fail!("edge-indices-changed", "filter_map removed nothing but edge indices changed");
                    }
                }
            }
            if !dead_n.is_empty() || !dead_e.is_empty() {
                cx.removals += 1;
                cx.last_was_removal = true;
            }
            need_adopt = true;
        }
        Op::Extend { edges } | Op::FromEdges { edges } => {
            let from_scratch = matches!(op, Op::FromEdges { .. });
            let edges: Vec<(usize, usize)> = edges.iter().map(|&(a, b)| (a.min(mx).min(300), b.min(mx).min(300))).collect();
            let mut target = if from_scratch { AdjModel::new(cx.m.compact, cx.m.directed, cx.m.max_index) } else { cx.m.clone() };
            if extend_overflows(&target, &edges) {
                // The list needs more nodes or edges than the index type admits. What the call
                // leaves behind when it gives up is not specified, but it must give up (panic):
                // returning normally would mean an element got the reserved end() index or an
                // index wrapped. After the panic the graph must still be a consistent graph;
                // the model is re-initialised from its public observation.
                cx.acc.probe("extend_beyond_index_limit");
                cx.acc.fault("index_limit_in_extend");
                cx.faults += 1;
                let ws: Vec<(usize, usize, u32)> = edges.iter().map(|&(a, b)| (a, b, cx.fresh())).collect();
                let r = catch(|| if from_scratch { sut.from_edges_replace(&ws, 0) } else { sut.extend_with_edges(&ws, 0) });
                match r {
                    Ok(()) => fail!("limit-ignored", "{} with a list that needs more than {} nodes/edges returned normally", kind, mx),
                    Err(_) => {
                        cx.acc.fault("documented_panic");
                        match model_from_sut(sut) {
                            Ok((m2, _, _)) => cx.m = m2,
                            Err((c, d)) => fail!("corrupt-after-panic", "after {} gave up at the index limit the graph is inconsistent ({}): {}", kind, c, d),
                        }
                        // weights may repeat now (Default node weights): make them unique again
                        for op2 in [Op::RewriteNodeW, Op::RewriteEdgeW] {
                            let (k2, _) = op2.kind();
                            apply(sut, cx, &op2, k2)?;
                        }
                    }
                }
            } else {
                let ws: Vec<(usize, usize, u32)> = edges.iter().map(|&(a, b)| (a, b, cx.fresh())).collect();
                // which IntoWeightedEdge implementation delivers the list (a function of the
                // list, so a replay takes the same one); the weightless forms need the new
                // edges' indices to be predictable, i.e. a compact graph
                let form = (crate::core::mix(edges.len() as u64, edges.first().map_or(7, |e| (e.0 * 31 + e.1) as u64)) % if target.compact { 5 } else { 3 }) as u8;
                let weightless = form >= 3;
                cx.acc.probe_if(weightless, "edge_list_without_weights");
                let r = catch(|| if from_scratch { sut.from_edges_replace(&ws, form) } else { sut.extend_with_edges(&ws, form) });
                if let Err(p) = r {
                    fail!("panic", "{} panicked: {}", kind, p);
                }
                if weightless {
                    // the edges were created with Default weights at the next free indices
                    let base = target.edges.len();
                    for (k, &(_, _, w)) in ws.iter().enumerate() {
                        match catch(|| sut.set_edge_w(base + k, w, WHow::WeightMut)) {
                            Ok(true) => {}
                            Ok(false) => fail!("edge-missing", "{}: edge number {} of the list is not at index {} afterwards", kind, k, base + k),
                            Err(p) => fail!("panic", "edge_weight_mut({}) panicked after {}: {}", base + k, kind, p),
                        }
                    }
                }
                // model: sequential semantics
                let mut new_nodes: Vec<usize> = Vec::new();
                for &(a, b, w) in &ws {
                    if target.compact {
                        let nx = a.max(b);
                        while nx >= target.nodes.len() {
                            let i = target.push_node(0);
                            new_nodes.push(i);
                        }
                    } else {
                        for x in [a, b] {
                            if target.node(x).is_none() {
                                cx.acc.probe_if(x < target.nodes.len(), "extend_occupied_a_vacancy");
                                cx.acc.probe_if(x > target.nodes.len(), "extend_padded_with_vacancies");
                                target.insert_node(x, 0);
                                new_nodes.push(x);
                            }
                        }
                    }
                    let e = if target.compact {
                        target.edges.len()
                    } else {
                        // the implementation chooses the slot: learn it from the listing below
                        usize::MAX
                    };
                    if target.compact {
                        target.insert_edge(e, a, b, w);
                    } else {
                        // find the slot by weight
                        let el = match catch(|| sut.edge_listing()) {
                            Ok(x) => x,
                            Err(p) => fail!("observe-panic", "listing after {} panicked: {}", kind, p),
                        };
                        match el.iter().find(|x| x.1 == w) {
                            Some(&(idx, _)) => {
                                if target.edge(idx).is_some() {
                                    fail!("index-live", "{} placed a new edge at live index {}", kind, idx);
                                }
                                if idx > target.edges.len() + 64 && idx >= (1 << 20) {
                                    fail!("index-range", "{} placed a new edge at implausible index {}", kind, idx);
                                }
                                target.insert_edge(idx, a, b, w);
                            }
                            None => fail!("edge-missing", "{}: the edge ({}, {}) with weight {} is not in the graph afterwards", kind, a, b, w),
                        }
                    }
                    cx.edges_added += 1;
                }
                // give the auto-inserted nodes unique weights (they were created with Default)
                new_nodes.sort();
                new_nodes.dedup();
                for &i in &new_nodes {
                    let w = cx.fresh();
                    match catch(|| sut.set_node_w(i, w, WHow::WeightMut)) {
                        Ok(true) => target.nodes[i].as_mut().unwrap().w = w,
                        Ok(false) => fail!("node-missing", "{} should have created node {} but node_weight_mut({}) is None", kind, i, i),
                        Err(p) => fail!("panic", "node_weight_mut({}) panicked after {}: {}", i, kind, p),
                    }
                }
                cx.m = target;
            }
        }
        Op::IntoEdgeType { .. } => unreachable!(),
        Op::Clone { clone_from } => {
            if *clone_from {
                // snapshot / restore: the destination is the snapshot taken at the previous
                // clone_from of this run (an earlier state of the same graph, so the two
                // share a prefix of indices with different contents), or a small unrelated
                // graph the first time
                let prev: Option<S> = cx.stash.take().and_then(|b| b.downcast::<S>().ok()).map(|b| *b);
                cx.acc.probe_if(prev.is_some(), "clone_from_onto_earlier_snapshot");
                match catch(|| sut.clone_from_stash(prev)) {
                    Ok(old) => cx.stash = Some(Box::new(old)),
                    Err(p) => fail!("panic", "clone_from panicked: {}", p),
                }
            } else if let Err(p) = catch(|| sut.clone_replace(false)) {
                fail!("panic", "clone panicked: {}", p);
            }
        }
        Op::Roundtrip | Op::FromElements => {
            let r = catch(|| if matches!(op, Op::Roundtrip) { sut.roundtrip_other() } else { sut.from_elements_replace() });
            if let Err(p) = r {
                fail!("panic", "{} panicked: {}", kind, p);
            }
            // both directions end in a graph whose elements are numbered by rank (a no-op
            // for Graph, compaction for StableGraph)
            let live_n = cx.m.live_nodes();
            let live_e = cx.m.live_edges();
            cx.acc.probe_if(!cx.m.compact && (live_n.len() != cx.m.nodes.len() || live_e.len() != cx.m.edges.len()), "stable_compacted_by_conversion");
            let mut fresh = AdjModel::new(cx.m.compact, cx.m.directed, cx.m.max_index);
            let mut rank = BTreeMap::new();
            for (r, &i) in live_n.iter().enumerate() {
                rank.insert(i, r);
                fresh.push_node(cx.m.node(i).unwrap().w);
            }
            for &i in &live_e {
                let e = cx.m.edge(i).unwrap();
                fresh.push_edge(rank[&e.a], rank[&e.b], e.w);
            }
            cx.m = fresh;
            need_adopt = true;
        }
        Op::FilterElements { seed, keep_n, keep_e } => {
            let mut nw = cx.next_w;
            let log = match catch(|| sut.filter_elements_replace(*seed, *keep_n, *keep_e, &mut nw)) {
                Ok(l) => l,
                Err(p) => fail!("panic", "filter_elements / from_elements panicked: {}", p),
            };
            // the same stream, computed from the model
            let live_n = cx.m.live_nodes();
            let live_e = cx.m.live_edges();
            let nodes: Vec<(usize, u32)> = live_n.iter().map(|&i| (i, cx.m.node(i).unwrap().w)).collect();
            let edges: Vec<(usize, usize, u32)> = live_e.iter().map(|&i| { let e = cx.m.edge(i).unwrap(); (e.a, e.b, e.w) }).collect();
            let stream = crate::engines::adjsut::element_stream(nodes, edges, *seed & 1 == 1);
            let mut fresh = AdjModel::new(cx.m.compact, cx.m.directed, cx.m.max_index);
            let mut w = cx.next_w;
            let mut exp_log = Vec::new();
            let (mut npos, mut epos) = (0usize, 0usize);
            // new rank of every stream position of a node, None when dropped
            let mut new_rank: Vec<Option<usize>> = Vec::new();
            for elt in stream {
                match elt {
                    petgraph::data::Element::Node { weight } => {
                        let keep = crate::engines::adjsut::keep_decision(weight, *seed, *keep_n);
                        let mut nwt = weight;
                        if keep {
                            w += 1;
                            nwt = w;
                            new_rank.push(Some(fresh.nodes.len()));
                            fresh.push_node(nwt);
                        } else {
                            new_rank.push(None);
                        }
                        exp_log.push((true, npos, weight, keep, nwt));
                        npos += 1;
                    }
                    petgraph::data::Element::Edge { source, target, weight } => {
                        let keep = crate::engines::adjsut::keep_decision(weight, *seed ^ 0xE, *keep_e);
                        let mut nwt = weight;
                        if keep {
                            w += 1;
                            nwt = w;
                            if let (Some(a), Some(b)) = (new_rank[source], new_rank[target]) {
                                fresh.push_edge(a, b, nwt);
                            }
                        }
                        exp_log.push((false, epos, weight, keep, nwt));
                        epos += 1;
                    }
                }
            }
            cx.next_w = nw.max(w);
            if log != exp_log {
                fail!("closure-args", "filter_elements showed its closure {:?} (is_node, position, weight, kept, new weight), the element stream is {:?}", log, exp_log);
            }
            cx.acc.probe_if(fresh.nodes.len() < live_n.len(), "filter_elements_dropped_node");
            cx.m = fresh;
            need_adopt = true;
        }
        Op::Capacity { which, n } => {
            if let Err(p) = catch(|| sut.capacity_op(*which, *n)) {
                fail!("panic", "capacity operation panicked: {}", p);
            }
        }
        Op::BulkNodes(k) => {
            for _ in 0..(*k).min(1400) {
                if cx.m.node_limit_reached() {
                    break;
                }
                let w = cx.fresh();
                match catch(|| sut.try_add_node(w)) {
                    Ok(Ok(idx)) => {
                        if cx.m.node(idx).is_some() || idx >= mx {
                            fail!("index", "bulk add_node returned index {}", idx);
                        }
                        cx.m.insert_node(idx, w);
                    }
                    Ok(Err(e)) => fail!("spurious-error", "try_add_node returned {:?} with {} nodes", e, cx.m.n_live()),
                    Err(p) => fail!("panic", "try_add_node panicked: {}", p),
                }
            }
            cx.acc.probe_if(cx.m.node_limit_reached(), "node_index_space_filled");
        }
        Op::BulkEdges { k, seed } => {
            let mut r = Rng::new(*seed);
            let live = cx.m.live_nodes();
            if !live.is_empty() {
                for _ in 0..(*k).min(5400) {
                    if cx.m.edge_limit_reached() {
                        break;
                    }
                    let a = live[r.below(live.len())];
                    let b = if live.len() > 300 && r.chance(1, 2) { live[r.below(live.len())] } else { live[r.below(live.len().min(8))] };
                    let w = cx.fresh();
                    match catch(|| sut.add_edge(a, b, w, EdgeMode::TryAdd)) {
                        Ok(Ok(e)) => {
                            if cx.m.edge(e).is_some() || e >= mx {
                                fail!("index", "bulk add_edge returned index {}", e);
                            }
                            cx.m.insert_edge(e, a, b, w);
                            cx.edges_added += 1;
                        }
                        Ok(Err(e)) => fail!("spurious-error", "try_add_edge returned {:?} with {} edges", e, cx.m.m_live()),
                        Err(p) => fail!("panic", "try_add_edge panicked: {}", p),
                    }
                }
            }
            cx.acc.probe_if(cx.m.edge_limit_reached(), "edge_index_space_filled");
        }
    }

    // ---- observation after the step
    let plan = if expect_unchanged { plan_before } else { cx.plan(need_adopt) };
    let obs = match catch(|| sut.snapshot(&plan)) {
        Ok(o) => o,
        Err(p) => fail!("observe-panic", "a query panicked after {}: {}", kind, p),
    };
    if expect_unchanged {
        if let Some(b) = &before {
            if *b != obs {
                let d = diff_obs(b, &obs);
                fail!("failed-call-changed-state", "{} reported failure but the observable state changed: {}", kind, d);
            }
        }
    }
    if need_adopt {
        if let Err(d) = adopt_order(&mut cx.m, &obs) {
            fail!("structure", "after {}: {}", kind, d);
        }
    }
    if cx.mode == Mode::Refine {
        if let Err((c, d)) = check_obs(&cx.m, &obs, &plan) {
            fail!(c, "{}", d);
        }
    } else {
        // C06: the model only drives generation here; a model disagreement is C01/C02's
        // business, so the run is abandoned (and counted) instead of reported
        // the invariant is self-consistency of the views, so it is evaluated first and does
        // not depend on the model being right
        let big = cx.m.n_live() > 14;
        if !big || cx.obs_rng.chance(1, 4) {
            let seed = cx.cfg.obs_seed ^ (cx.step as u64);
            match catch(|| sut.visit_check(seed)) {
                Ok(Ok(())) => {}
                Ok(Err((c, d))) => return Err(cx.fail("visit", c, d)),
                Err(p) => return Err(cx.fail("visit", "panic", format!("a visit-trait call panicked after {}: {}", kind, p))),
            }
            cx.acc.probe_if(!cx.m.vacant_nodes().is_empty(), "visit_checked_state_with_node_vacancies");
            cx.acc.probe_if(!cx.m.vacant_edges().is_empty(), "visit_checked_state_with_edge_vacancies");
        }
        if check_obs(&cx.m, &obs, &plan).is_err() {
            cx.acc.probe("visit_run_discarded_model_mismatch");
            return Err(Exec { violation: None, nontrivial: false });
        }
    }
    cx.acc.state(cx.m.hash());
    Ok(())
}

/// Renumber a (temporarily non-compact) model into the compact range following the
/// implementation's observed (index, weight) listing: any bijection is accepted.
fn compact_by_weights(m: &mut AdjModel, nl: &[(usize, u32)], el: &[(usize, u32)]) -> Result<(), String> {
    let old_nodes = std::mem::take(&mut m.nodes);
    let old_edges = std::mem::take(&mut m.edges);
    let n_live = old_nodes.iter().filter(|x| x.is_some()).count();
    let m_live = old_edges.iter().filter(|x| x.is_some()).count();
    if nl.len() != n_live || el.len() != m_live {
        return Err(format!("{} nodes / {} edges expected, implementation lists {} / {}", n_live, m_live, nl.len(), el.len()));
    }
    let mut node_pos: BTreeMap<u32, usize> = BTreeMap::new();
    for (p, &(i, w)) in nl.iter().enumerate() {
        if i != p || node_pos.insert(w, i).is_some() {
            return Err(format!("node listing is not a compact duplicate-free range: {:?}", nl));
        }
    }
    let mut edge_pos: BTreeMap<u32, usize> = BTreeMap::new();
    for (p, &(i, w)) in el.iter().enumerate() {
        if i != p || edge_pos.insert(w, i).is_some() {
            return Err(format!("edge listing is not a compact duplicate-free range: {:?}", el));
        }
    }
    let mut remap = BTreeMap::new();
    let mut nn = vec![None; n_live];
    for (old, n) in old_nodes.into_iter().enumerate() {
        if let Some(n) = n {
            let new = *node_pos.get(&n.w).ok_or_else(|| format!("node with weight {} missing", n.w))?;
            remap.insert(old, new);
            nn[new] = Some(n);
        }
    }
    let mut ne = vec![None; m_live];
    for e in old_edges.into_iter().flatten() {
        let mut e = e;
        let new = *edge_pos.get(&e.w).ok_or_else(|| format!("edge with weight {} missing", e.w))?;
        e.a = remap[&e.a];
        e.b = remap[&e.b];
        ne[new] = Some(e);
    }
    m.nodes = nn;
    m.edges = ne;
    Ok(())
}

fn diff_obs(a: &Obs, b: &Obs) -> String {
    macro_rules! f {
        ($($field:ident),*) => {
            $( if a.$field != b.$field { return format!("{} was {:?}, now {:?}", stringify!($field), a.$field, b.$field); } )*
        };
    }
    f!(node_count, edge_count, node_bound, edge_bound, node_indices, edge_indices, node_weights, edge_weights, node_refs, edge_refs, edge_probe, externals_out, externals_in, raw_lens);
    for (x, y) in a.nodes.iter().zip(b.nodes.iter()) {
        if x != y {
            return format!("view from node {} was {:?}, now {:?}", x.a, x, y);
        }
    }
    for (x, y) in a.pairs.iter().zip(b.pairs.iter()) {
        if x != y {
            return format!("pair query ({}, {}) was {:?}, now {:?}", x.a, x.b, x, y);
        }
    }
    "observations differ".to_string()
}

// ---------------------------------------------------------------------------------------
// deep consistency of a graph that did not come from a history (C17: a graph handed back
// by a deserialiser fed with hostile input)
// ---------------------------------------------------------------------------------------

/// Build a model from the public observation of `sut` (fails if the observation itself is
/// inconsistent, e.g. an edge whose endpoint is not a live node).
pub fn model_from_sut<S: AdjSut>(sut: &S) -> Result<(AdjModel, ObsPlan, Obs), (&'static str, String)> {
    let nl = catch(|| sut.node_listing()).map_err(|p| ("listing-panic", format!("node_references panicked: {}", p)))?;
    let el = catch(|| sut.edge_listing()).map_err(|p| ("listing-panic", format!("edge_references panicked: {}", p)))?;
    let mx = S::max_index();
    let mut nodes: Vec<usize> = nl.iter().map(|x| x.0).collect();
    if nodes.iter().any(|&i| i >= mx || i > 1_000_000) {
        return Err(("node-index-range", format!("node listing contains an impossible index: {:?}", nodes.iter().max())));
    }
    let slots = nodes.iter().max().map(|m| m + 1).unwrap_or(0);
    // probe a few absent ones too
    for x in [slots, slots + 1, mx] {
        nodes.push(x.min(mx));
    }
    // plus the vacancies below the bound
    for i in 0..slots {
        if !nodes.contains(&i) {
            nodes.push(i);
        }
    }
    let eslots = el.iter().map(|x| x.0).max().map(|m| m + 1).unwrap_or(0);
    if eslots > 1_000_000 {
        return Err(("edge-index-range", format!("edge listing contains an impossible index {}", eslots - 1)));
    }
    let mut edges: Vec<usize> = (0..eslots).collect();
    for x in [eslots, eslots + 1, mx] {
        edges.push(x.min(mx));
    }
    let mut pairs = Vec::new();
    let probe: Vec<usize> = nodes.iter().copied().take(10).collect();
    for &a in &probe {
        for &b in &probe {
            pairs.push((a, b));
        }
    }
    let plan = ObsPlan { nodes, edges, pairs };
    let obs = catch(|| sut.snapshot(&plan)).map_err(|p| ("observe-panic", format!("a query panicked on the loaded graph: {}", p)))?;
    let mut m = AdjModel::new(!S::STABLE, S::directed(), mx);
    let mut seen = BTreeSet::new();
    for &(i, w) in &obs.node_refs {
        if !seen.insert(i) {
            return Err(("duplicate-node", format!("node_references lists node {} twice", i)));
        }
        m.insert_node(i, w);
    }
    let mut seen = BTreeSet::new();
    for &(e, a, b, w) in &obs.edge_refs {
        if !seen.insert(e) {
            return Err(("duplicate-edge", format!("edge_references lists edge {} twice", e)));
        }
        if m.node(a).is_none() || m.node(b).is_none() {
            return Err(("edge-endpoint-not-live", format!("edge {} joins {} -> {} but node {} is not a live node (live: {:?})", e, a, b, if m.node(a).is_none() { a } else { b }, m.live_nodes())));
        }
        m.insert_edge(e, a, b, w);
    }
    adopt_order(&mut m, &obs).map_err(|d| ("adjacency-lists", d))?;
    check_obs(&m, &obs, &plan)?;
    Ok((m, plan, obs))
}

/// The loaded graph must satisfy every consistency guarantee of its type *under further
/// use*: visit invariant, then a seeded follow-up history in lock-step with a model that
/// was initialised from the graph's own public observation.
pub fn deep_consistency<S: AdjSut>(prefix: &'static str, mut sut: S, width: Width, follow_seed: u64, follow_len: usize, acc: &mut Acc) -> Result<(), (String, String)>
where
    S::Flipped: AdjSut<Flipped = S>,
{
    let (m, _plan, _obs) = model_from_sut(&sut).map_err(|(c, d)| (format!("loaded/{}", c), d))?;
    match catch(|| sut.visit_check(follow_seed)) {
        Ok(Ok(())) => {}
        Ok(Err((c, d))) => return Err((format!("loaded/visit-{}", c), d)),
        Err(p) => return Err(("loaded/visit-panic".into(), format!("a visit-trait call panicked on the loaded graph: {}", p))),
    }
    let cfg = Cfg {
        stable: S::STABLE,
        directed: S::directed(),
        width,
        cap: None,
        create_via_trait: false,
        size_class: 1,
        fault_permille: 150,
        // no into_edge_type / bulk ops in the follow-up
        disabled: (1 << 24) | (1 << 29) | (1 << 30),
        obs_seed: follow_seed ^ 0x0b5,
    };
    let mut ops = Vec::new();
    let mut cx = Ctx {
        prefix,
        mode: Mode::Refine,
        cfg: &cfg,
        acc,
        ops: &mut ops,
        m,
        next_w: 3_000_000_000,
        step: 0,
        obs_rng: Rng::new(cfg.obs_seed),
        edges_added: 0,
        removals: 0,
        faults: 0,
        last_was_removal: true,
        stash: None,
    };
    // weights of a loaded graph need not be unique; the lock-step model identifies elements by
    // weight after multi-removals, so give every element a fresh one first
    for op in [Op::RewriteNodeW, Op::RewriteEdgeW] {
        let (kind, _) = op.kind();
        if let Err(ex) = apply(&mut sut, &mut cx, &op, kind) {
            let v = ex.violation.unwrap();
            return Err((format!("followup/{}", v.class), v.detail));
        }
        cx.step += 1;
    }
    let mut feed = OpFeed::Gen { rng: Rng::new(follow_seed), remaining: follow_len };
    let ex = run_steps(sut, &mut cx, &mut feed);
    match ex.violation {
        None => Ok(()),
        Some(v) => Err((format!("followup/{}", v.class), format!("{} (follow-up history so far: {:?})", v.detail, ops))),
    }
}
