//! C06 — every graph type and adaptor shows one consistent graph through the `visit`
//! traits. This is a *step invariant* evaluated on the states reached by the history
//! engines: the ground truth of a view is the structure's own `node_identifiers()` +
//! `edge_references()`, and every other trait method (on the structure and on each adaptor
//! stacked on it, up to depth 2) must describe exactly that graph, transformed the obvious
//! way. No reference model is consulted here.

use crate::core::mix;
use petgraph::visit::*;
use petgraph::Direction;

pub type EKey = u64;
pub type EdgeT = (EKey, usize, usize);
pub type VErr = (&'static str, String);

#[derive(Default, Clone, Debug)]
pub struct PerNode {
    pub a: usize,
    pub nbr: Option<Vec<usize>>,
    pub edges: Option<Vec<EdgeT>>,
    pub nbr_out: Option<Vec<usize>>,
    pub nbr_in: Option<Vec<usize>>,
    pub edges_out: Option<Vec<EdgeT>>,
    pub edges_in: Option<Vec<EdgeT>>,
}

#[derive(Default, Clone, Debug)]
pub struct RawObs {
    pub directed: Option<bool>,
    pub node_ids: Option<Vec<usize>>,
    pub node_refs: Option<Vec<usize>>,
    pub node_count: Option<usize>,
    pub edge_count: Option<usize>,
    pub node_bound: Option<usize>,
    /// (node key, to_index, key of from_index(to_index))
    pub index: Option<Vec<(usize, usize, usize)>>,
    pub compact: bool,
    pub edge_refs: Option<Vec<EdgeT>>,
    pub per_node: Vec<PerNode>,
    pub adj: Option<Vec<(usize, usize, bool)>>,
    /// every (edge, weight) pair any weight-reporting iterator of the view handed out
    pub weights: Vec<(WKeyT, u64, &'static str)>,
    /// outcome of the Visitable protocol check (None = not observed)
    pub vmap: Option<Result<(), String>>,
    /// EdgeIndexable: (edge_bound, [(edge key, to_index, key of from_index(to_index))])
    pub eindex: Option<(usize, Vec<(EKey, usize, EKey)>)>,
}

/// (edge key, smaller endpoint, larger endpoint): identifies an edge in every view of it
pub type WKeyT = (EKey, usize, usize);
pub fn wkey(k: EKey, s: usize, t: usize) -> WKeyT {
    (k, s.min(t), s.max(t))
}
pub trait WVal {
    fn wval(&self) -> u64;
}
impl WVal for u32 {
    fn wval(&self) -> u64 {
        *self as u64
    }
}

#[derive(Clone, Debug)]
pub struct Truth {
    pub directed: bool,
    pub nodes: Vec<usize>,
    pub edges: Vec<EdgeT>,
    pub weights: std::collections::BTreeMap<WKeyT, u64>,
}

impl Truth {
    pub fn reversed(&self) -> Truth {
        Truth {
            directed: self.directed,
            nodes: self.nodes.clone(),
            edges: self.edges.iter().map(|&(k, s, t)| (k, t, s)).collect(),
            weights: self.weights.clone(),
        }
    }
    pub fn node_filtered(&self, keep: &dyn Fn(usize) -> bool) -> Truth {
        Truth {
            directed: self.directed,
            nodes: self.nodes.iter().copied().filter(|&n| keep(n)).collect(),
            edges: self.edges.iter().copied().filter(|&(_, s, t)| keep(s) && keep(t)).collect(),
            weights: self.weights.clone(),
        }
    }
    pub fn edge_filtered(&self, keep: &dyn Fn(EdgeT) -> bool) -> Truth {
        Truth {
            directed: self.directed,
            nodes: self.nodes.clone(),
            edges: self.edges.iter().copied().filter(|&e| keep(e)).collect(),
            weights: self.weights.clone(),
        }
    }
    pub fn symmetrised(&self) -> Truth {
        Truth {
            directed: false,
            nodes: self.nodes.clone(),
            edges: self.edges.clone(),
            weights: self.weights.clone(),
        }
    }
}

// ---------------------------------------------------------------------------------------
// tiny generic extractors: one trait bound each, so any adaptor can be observed with
// exactly the traits it implements
// ---------------------------------------------------------------------------------------

pub fn x_nodes<G: IntoNodeIdentifiers>(g: G, nk: &dyn Fn(G::NodeId) -> usize) -> Vec<usize> {
    let mut v = Vec::new();
    for n in g.node_identifiers() {
        v.push(nk(n));
        assert!(v.len() < 1_000_000, "node_identifiers does not terminate");
    }
    v
}
pub fn x_node_refs<G: IntoNodeReferences>(g: G, nk: &dyn Fn(G::NodeId) -> usize) -> Vec<usize> {
    g.node_references().map(|r| nk(r.id())).collect()
}
pub fn x_edge_refs<G: IntoEdgeReferences>(g: G, nk: &dyn Fn(G::NodeId) -> usize, ek: &dyn Fn(G::EdgeId) -> EKey) -> Vec<EdgeT> {
    let mut v = Vec::new();
    for e in g.edge_references() {
        v.push((ek(e.id()), nk(e.source()), nk(e.target())));
        assert!(v.len() < 4_000_000, "edge_references does not terminate");
    }
    v
}
pub fn x_out<G: IntoNeighbors + IntoEdges>(g: G, probe: &[G::NodeId], nk: &dyn Fn(G::NodeId) -> usize, ek: &dyn Fn(G::EdgeId) -> EKey, out: &mut Vec<PerNode>) {
    for (i, &a) in probe.iter().enumerate() {
        out[i].nbr = Some(g.neighbors(a).map(|n| nk(n)).collect());
        out[i].edges = Some(g.edges(a).map(|e| (ek(e.id()), nk(e.source()), nk(e.target()))).collect());
    }
}
pub fn x_dir<G: IntoNeighborsDirected + IntoEdgesDirected>(g: G, probe: &[G::NodeId], nk: &dyn Fn(G::NodeId) -> usize, ek: &dyn Fn(G::EdgeId) -> EKey, out: &mut Vec<PerNode>) {
    for (i, &a) in probe.iter().enumerate() {
        out[i].nbr_out = Some(g.neighbors_directed(a, Direction::Outgoing).map(|n| nk(n)).collect());
        out[i].nbr_in = Some(g.neighbors_directed(a, Direction::Incoming).map(|n| nk(n)).collect());
        out[i].edges_out = Some(g.edges_directed(a, Direction::Outgoing).map(|e| (ek(e.id()), nk(e.source()), nk(e.target()))).collect());
        out[i].edges_in = Some(g.edges_directed(a, Direction::Incoming).map(|e| (ek(e.id()), nk(e.source()), nk(e.target()))).collect());
    }
}
pub fn x_index<G: NodeIndexable>(g: &G, ids: &[G::NodeId], nk: &dyn Fn(G::NodeId) -> usize) -> (usize, Vec<(usize, usize, usize)>) {
    let bound = g.node_bound();
    let v = ids
        .iter()
        .map(|&n| {
            let i = g.to_index(n);
            let back = if i < bound { nk(g.from_index(i)) } else { usize::MAX };
            (nk(n), i, back)
        })
        .collect();
    (bound, v)
}
pub fn x_ew<G: IntoEdgeReferences>(g: G, nk: &dyn Fn(G::NodeId) -> usize, ek: &dyn Fn(G::EdgeId) -> EKey, out: &mut Vec<(WKeyT, u64, &'static str)>)
where
    G::EdgeWeight: WVal,
{
    for e in g.edge_references() {
        out.push((wkey(ek(e.id()), nk(e.source()), nk(e.target())), e.weight().wval(), "edge_references"));
    }
}
pub fn x_outw<G: IntoEdges>(g: G, probe: &[G::NodeId], nk: &dyn Fn(G::NodeId) -> usize, ek: &dyn Fn(G::EdgeId) -> EKey, out: &mut Vec<(WKeyT, u64, &'static str)>)
where
    G::EdgeWeight: WVal,
{
    for &a in probe {
        for e in g.edges(a) {
            out.push((wkey(ek(e.id()), nk(e.source()), nk(e.target())), e.weight().wval(), "edges"));
        }
    }
}
pub fn x_dirw<G: IntoEdgesDirected>(g: G, probe: &[G::NodeId], nk: &dyn Fn(G::NodeId) -> usize, ek: &dyn Fn(G::EdgeId) -> EKey, out: &mut Vec<(WKeyT, u64, &'static str)>)
where
    G::EdgeWeight: WVal,
{
    for &a in probe {
        for d in [Direction::Outgoing, Direction::Incoming] {
            for e in g.edges_directed(a, d) {
                out.push((wkey(ek(e.id()), nk(e.source()), nk(e.target())), e.weight().wval(), "edges_directed"));
            }
        }
    }
}
/// The Visitable / VisitMap protocol on the nodes the view lists: a fresh map has nothing
/// visited, `visit` reports the first visit only, `unvisit` undoes exactly one node,
/// `reset_map` clears everything (and re-sizes a foreign map).
pub fn x_vmap<G: Visitable>(g: &G, ids: &[G::NodeId], nk: &dyn Fn(G::NodeId) -> usize) -> Result<(), String> {
    let mut m = g.visit_map();
    for &n in ids {
        if m.is_visited(&n) {
            return Err(format!("fresh visit_map() already has node {} visited", nk(n)));
        }
    }
    for &n in ids {
        if !m.visit(n) {
            return Err(format!("visit({}) on an unvisited node returned false", nk(n)));
        }
        if !m.is_visited(&n) {
            return Err(format!("is_visited({}) is false right after visit", nk(n)));
        }
        if m.visit(n) {
            return Err(format!("second visit({}) returned true", nk(n)));
        }
    }
    for (i, &n) in ids.iter().enumerate() {
        if i % 2 == 0 {
            if !m.unvisit(n) {
                return Err(format!("unvisit({}) on a visited node returned false", nk(n)));
            }
            if m.is_visited(&n) {
                return Err(format!("is_visited({}) is true after unvisit", nk(n)));
            }
            if m.unvisit(n) {
                return Err(format!("second unvisit({}) returned true", nk(n)));
            }
        }
    }
    for (i, &n) in ids.iter().enumerate() {
        if m.is_visited(&n) != (i % 2 == 1) {
            return Err(format!("after unvisiting every other node, is_visited({}) = {}", nk(n), m.is_visited(&n)));
        }
    }
    g.reset_map(&mut m);
    for &n in ids {
        if m.is_visited(&n) {
            return Err(format!("node {} still visited after reset_map", nk(n)));
        }
        if !m.visit(n) {
            return Err(format!("visit({}) after reset_map returned false", nk(n)));
        }
    }
    Ok(())
}
pub fn x_eindex<G: IntoEdgeReferences + EdgeIndexable>(g: G, ek: &dyn Fn(G::EdgeId) -> EKey) -> (usize, Vec<(EKey, usize, EKey)>) {
    let bound = g.edge_bound();
    let v = g
        .edge_references()
        .map(|e| {
            let i = EdgeIndexable::to_index(&g, e.id());
            let back = if i < bound { ek(EdgeIndexable::from_index(&g, i)) } else { u64::MAX };
            (ek(e.id()), i, back)
        })
        .collect();
    (bound, v)
}
pub fn x_ncount<G: NodeCount>(g: &G) -> usize {
    g.node_count()
}
pub fn x_ecount<G: EdgeCount>(g: &G) -> usize {
    g.edge_count()
}
pub fn x_prop<G: GraphProp>(g: &G) -> bool {
    g.is_directed()
}
pub fn x_compact<G: NodeCompactIndexable>(_g: &G) -> bool {
    true
}
pub fn x_adj<G: GetAdjacencyMatrix>(g: &G, ids: &[G::NodeId], nk: &dyn Fn(G::NodeId) -> usize) -> Vec<(usize, usize, bool)> {
    let m = g.adjacency_matrix();
    let mut v = Vec::new();
    for &a in ids {
        for &b in ids {
            v.push((nk(a), nk(b), g.is_adjacent(&m, a, b)));
        }
    }
    v
}

/// `view!(obs <- expr; probe, ids, nk, ek; features...)`: observe `expr` through exactly the
/// listed trait groups.
#[macro_export]
macro_rules! view {
    ($g:expr; $probe:expr, $nk:expr, $ek:expr; $($feat:ident),*) => {{
        let mut o = $crate::engines::visit::RawObs::default();
        o.per_node = $probe.iter().map(|&a| $crate::engines::visit::PerNode { a: ($nk)(a), ..Default::default() }).collect();
        $( view!(@feat $feat, o, $g, $probe, $nk, $ek); )*
        o
    }};
    (@feat nodes, $o:ident, $g:expr, $probe:expr, $nk:expr, $ek:expr) => { $o.node_ids = Some($crate::engines::visit::x_nodes($g, $nk)); };
    (@feat noderefs, $o:ident, $g:expr, $probe:expr, $nk:expr, $ek:expr) => { $o.node_refs = Some($crate::engines::visit::x_node_refs($g, $nk)); };
    (@feat edges, $o:ident, $g:expr, $probe:expr, $nk:expr, $ek:expr) => { $o.edge_refs = Some($crate::engines::visit::x_edge_refs($g, $nk, $ek)); };
    (@feat out, $o:ident, $g:expr, $probe:expr, $nk:expr, $ek:expr) => { $crate::engines::visit::x_out($g, $probe, $nk, $ek, &mut $o.per_node); };
    (@feat dir, $o:ident, $g:expr, $probe:expr, $nk:expr, $ek:expr) => { $crate::engines::visit::x_dir($g, $probe, $nk, $ek, &mut $o.per_node); };
    (@feat index, $o:ident, $g:expr, $probe:expr, $nk:expr, $ek:expr) => { let (b, v) = $crate::engines::visit::x_index(&$g, $probe, $nk); $o.node_bound = Some(b); $o.index = Some(v); };
    (@feat compact, $o:ident, $g:expr, $probe:expr, $nk:expr, $ek:expr) => { $o.compact = $crate::engines::visit::x_compact(&$g); };
    (@feat ncount, $o:ident, $g:expr, $probe:expr, $nk:expr, $ek:expr) => { $o.node_count = Some($crate::engines::visit::x_ncount(&$g)); };
    (@feat ecount, $o:ident, $g:expr, $probe:expr, $nk:expr, $ek:expr) => { $o.edge_count = Some($crate::engines::visit::x_ecount(&$g)); };
    (@feat prop, $o:ident, $g:expr, $probe:expr, $nk:expr, $ek:expr) => { $o.directed = Some($crate::engines::visit::x_prop(&$g)); };
    (@feat ew, $o:ident, $g:expr, $probe:expr, $nk:expr, $ek:expr) => { $crate::engines::visit::x_ew($g, $nk, $ek, &mut $o.weights); };
    (@feat outw, $o:ident, $g:expr, $probe:expr, $nk:expr, $ek:expr) => { $crate::engines::visit::x_outw($g, $probe, $nk, $ek, &mut $o.weights); };
    (@feat dirw, $o:ident, $g:expr, $probe:expr, $nk:expr, $ek:expr) => { $crate::engines::visit::x_dirw($g, $probe, $nk, $ek, &mut $o.weights); };
    (@feat vmap, $o:ident, $g:expr, $probe:expr, $nk:expr, $ek:expr) => { $o.vmap = Some($crate::engines::visit::x_vmap(&$g, $probe, $nk)); };
    (@feat eindex, $o:ident, $g:expr, $probe:expr, $nk:expr, $ek:expr) => { $o.eindex = Some($crate::engines::visit::x_eindex($g, $ek)); };
    (@feat adj, $o:ident, $g:expr, $probe:expr, $nk:expr, $ek:expr) => { $o.adj = Some($crate::engines::visit::x_adj(&$g, $probe, $nk)); };
}

fn sorted<T: Ord + Clone>(v: &[T]) -> Vec<T> {
    let mut v = v.to_vec();
    v.sort();
    v
}

fn canon_edges(directed: bool, v: &[EdgeT]) -> Vec<EdgeT> {
    let mut v: Vec<EdgeT> = v
        .iter()
        .map(|&(k, s, t)| if directed || s <= t { (k, s, t) } else { (k, t, s) })
        .collect();
    v.sort();
    v
}

#[derive(Clone, Copy, PartialEq, Eq, Debug)]
pub enum Flavor {
    Normal,
    /// `UndirectedAdaptor`: chains the incoming and the outgoing list, so a self-loop may be
    /// listed once or twice; `edges(a)` reports `a` as the source like every undirected graph
    /// (it did not before the repair eae3c94 in /repo), `edge_references()` keeps the base
    /// orientation.
    Symmetrised,
}

/// Check one view against the truth it must present.
pub fn check_view(view: &str, o: &RawObs, t: &Truth, flavor: Flavor, ground_ids: &[usize]) -> Result<(), VErr> {
    macro_rules! ensure {
        ($name:expr, $cond:expr, $($arg:tt)*) => {
            if !($cond) { return Err(($name, format!("[{}] {}", view, format!($($arg)*)))); }
        };
    }
    let tn = sorted(&t.nodes);
    if let Some(d) = o.directed {
        ensure!("is_directed", d == t.directed, "is_directed() = {}, expected {}", d, t.directed);
    }
    if let Some(ids) = &o.node_ids {
        ensure!("node_identifiers", sorted(ids) == tn, "node_identifiers() = {:?}, expected each of {:?} once", ids, tn);
    }
    if let Some(refs) = &o.node_refs {
        ensure!("node_references", sorted(refs) == tn, "node_references() ids = {:?}, expected each of {:?} once", refs, tn);
        if let Some(ids) = &o.node_ids {
            ensure!("node_references_order", refs == ids, "node_references() order {:?} differs from node_identifiers() {:?}", refs, ids);
        }
    }
    if let Some(c) = o.node_count {
        ensure!("node_count", c == tn.len(), "node_count() = {} but node_identifiers() yields {} nodes", c, tn.len());
    }
    let te = canon_edges(t.directed, &t.edges);
    if let Some(er) = &o.edge_refs {
        let got = canon_edges(t.directed, er);
        ensure!("edge_references", got == te, "edge_references() = {:?}, expected {:?}", er, t.edges);
    }
    if let Some(c) = o.edge_count {
        ensure!("edge_count", c == te.len(), "edge_count() = {} but the view has {} edges", c, te.len());
    }
    if let (Some(bound), Some(ix)) = (o.node_bound, &o.index) {
        let mut seen = std::collections::BTreeSet::new();
        for &(k, i, back) in ix {
            if !t.nodes.contains(&k) {
                continue;
            }
            ensure!("to_index", i < bound, "to_index({}) = {} is not below node_bound() = {}", k, i, bound);
            ensure!("to_index_injective", seen.insert(i), "to_index({}) = {} collides with another node", k, i);
            ensure!("from_index", back == k, "from_index(to_index({})) gives node {}", k, back);
        }
        if o.compact {
            ensure!("compact_bound", bound == tn.len(), "NodeCompactIndexable but node_bound() = {} with {} nodes", bound, tn.len());
        }
    }
    // per node
    for pn in &o.per_node {
        let a = pn.a;
        let live = t.nodes.contains(&a);
        let (out_e, in_e): (Vec<EdgeT>, Vec<EdgeT>) = if !live {
            (vec![], vec![])
        } else if t.directed {
            (
                t.edges.iter().copied().filter(|e| e.1 == a).collect(),
                t.edges.iter().copied().filter(|e| e.2 == a).collect(),
            )
        } else {
            // each incident edge once; reported with `a` as source (Outgoing) / target (Incoming)
            let inc: Vec<EdgeT> = t.edges.iter().copied().filter(|e| e.1 == a || e.2 == a).collect();
            (
                inc.iter().map(|&(k, s, tt)| (k, a, if s == a { tt } else { s })).collect(),
                inc.iter().map(|&(k, s, tt)| (k, if s == a { tt } else { s }, a)).collect(),
            )
        };
        match flavor {
            Flavor::Normal => {
                let exp_nbr: Vec<usize> = out_e.iter().map(|e| e.2).collect();
                let exp_nbr_in: Vec<usize> = in_e.iter().map(|e| e.1).collect();
                if let Some(v) = &pn.nbr {
                    ensure!("neighbors", sorted(v) == sorted(&exp_nbr), "neighbors({}) = {:?}, edge_references imply {:?}", a, v, exp_nbr);
                }
                if let Some(v) = &pn.edges {
                    ensure!("edges", sorted(v) == sorted(&out_e), "edges({}) = {:?}, edge_references imply {:?}", a, v, out_e);
                }
                if let Some(v) = &pn.nbr_out {
                    ensure!("neighbors_directed_outgoing", sorted(v) == sorted(&exp_nbr), "neighbors_directed({}, Outgoing) = {:?}, edge_references imply {:?}", a, v, exp_nbr);
                }
                if let Some(v) = &pn.nbr_in {
                    ensure!("neighbors_directed_incoming", sorted(v) == sorted(&exp_nbr_in), "neighbors_directed({}, Incoming) = {:?}, edge_references imply {:?}", a, v, exp_nbr_in);
                }
                if let Some(v) = &pn.edges_out {
                    ensure!("edges_directed_outgoing", sorted(v) == sorted(&out_e), "edges_directed({}, Outgoing) = {:?}, edge_references imply {:?}", a, v, out_e);
                }
                if let Some(v) = &pn.edges_in {
                    ensure!("edges_directed_incoming", sorted(v) == sorted(&in_e), "edges_directed({}, Incoming) = {:?}, edge_references imply {:?}", a, v, in_e);
                }
            }
            Flavor::Symmetrised => {
                // truth is stored with the base orientation; incident = both directions
                let inc: Vec<EdgeT> = if live { t.edges.iter().copied().filter(|e| e.1 == a || e.2 == a).collect() } else { vec![] };
                let loops = inc.iter().filter(|e| e.1 == a && e.2 == a).count();
                let non_loop_nbr: Vec<usize> = inc.iter().filter(|e| !(e.1 == a && e.2 == a)).map(|e| if e.1 == a { e.2 } else { e.1 }).collect();
                if let Some(v) = &pn.nbr {
                    let got_non: Vec<usize> = v.iter().copied().filter(|&x| x != a).collect();
                    let got_loops = v.iter().filter(|&&x| x == a).count();
                    // a non-loop edge between a and a cannot exist, so entries equal to `a` are loops
                    ensure!("neighbors", sorted(&got_non) == sorted(&non_loop_nbr), "neighbors({}) = {:?}, symmetrised graph implies {:?} (+ self-loops)", a, v, non_loop_nbr);
                    ensure!("neighbors_loops", got_loops >= loops && got_loops <= 2 * loops, "neighbors({}) lists the node itself {} times for {} self-loop(s)", a, got_loops, loops);
                }
                if let Some(v) = &pn.edges {
                    let canon = |e: &EdgeT| (e.0, e.1.min(e.2), e.1.max(e.2));
                    let got_non: Vec<_> = v.iter().filter(|e| e.1 != e.2).map(canon).collect();
                    let exp_non: Vec<_> = inc.iter().filter(|e| e.1 != e.2).map(canon).collect();
                    ensure!("edges", sorted(&got_non) == sorted(&exp_non), "edges({}) = {:?}, symmetrised graph implies {:?}", a, v, inc);
                    let got_loops = v.iter().filter(|e| e.1 == e.2).count();
                    ensure!("edges_loops", got_loops >= loops && got_loops <= 2 * loops, "edges({}) lists {} self-loop entries for {} self-loop(s)", a, got_loops, loops);
                    // the convention of every undirected graph: the queried node is the source
                    ensure!("edges_orientation", v.iter().all(|e| e.1 == a), "edges({}) = {:?}: an undirected view reports every incident edge with the queried node as source", a, v);
                }
            }
        }
    }
    if let Some(adj) = &o.adj {
        let node_set: std::collections::BTreeSet<usize> = t.nodes.iter().copied().collect();
        let mut pair_set: std::collections::BTreeSet<(usize, usize)> = std::collections::BTreeSet::new();
        for e in &t.edges {
            pair_set.insert((e.1, e.2));
            if !t.directed {
                pair_set.insert((e.2, e.1));
            }
        }
        for &(a, b, val) in adj {
            if !(node_set.contains(&a) && node_set.contains(&b)) {
                continue;
            }
            let exp = pair_set.contains(&(a, b));
            ensure!("is_adjacent", val == exp, "is_adjacent({}, {}) = {} but the view {} an edge {}->{}", a, b, val, if exp { "has" } else { "has no" }, a, b);
        }
    }
    for (k, w, via) in &o.weights {
        match t.weights.get(k) {
            Some(tw) => ensure!("edge_weight", tw == w, "{}: edge {:?} (key, endpoints) carries weight {} but the base graph's edge_references() gives it {}", via, k, w, tw),
            None => ensure!("edge_weight", t.weights.is_empty(), "{}: edge {:?} (key, endpoints) with weight {} is not an edge of the base graph", via, k, w),
        }
    }
    if let Some(Err(e)) = &o.vmap {
        ensure!("visit_map", false, "Visitable protocol: {}", e);
    }
    if let Some((bound, ix)) = &o.eindex {
        ensure!("edge_bound", ix.iter().all(|x| x.1 < *bound), "EdgeIndexable::to_index yields {:?} (edge key, index, ..) with edge_bound() = {}", ix.iter().find(|x| x.1 >= *bound), bound);
        let mut seen = std::collections::BTreeSet::new();
        for &(k, i, back) in ix {
            ensure!("edge_to_index_injective", seen.insert(i), "EdgeIndexable::to_index maps two edges to {}", i);
            ensure!("edge_from_index", back == k, "EdgeIndexable::from_index(to_index(edge {})) gives edge {}", k, back);
        }
    }
    let _ = ground_ids;
    Ok(())
}

/// Ground truth from a base view: its own node_identifiers + edge_references, after checking
/// that those are duplicate-free (each node / edge once).
pub fn truth_of(view: &str, o: &RawObs, edge_ids_unique: bool) -> Result<Truth, VErr> {
    let nodes = o.node_ids.clone().unwrap_or_default();
    let mut s = sorted(&nodes);
    s.dedup();
    if s.len() != nodes.len() {
        return Err(("node_identifiers_duplicates", format!("[{}] node_identifiers() yields a node twice: {:?}", view, nodes)));
    }
    let edges = o.edge_refs.clone().unwrap_or_default();
    if edge_ids_unique {
        let mut ks: Vec<EKey> = edges.iter().map(|e| e.0).collect();
        ks.sort();
        let n = ks.len();
        ks.dedup();
        if ks.len() != n {
            return Err(("edge_references_duplicates", format!("[{}] edge_references() yields an edge id twice: {:?}", view, edges)));
        }
    }
    for e in &edges {
        if !nodes.contains(&e.1) || !nodes.contains(&e.2) {
            return Err(("edge_references_dangling", format!("[{}] edge_references() yields {:?} whose endpoint is not in node_identifiers() {:?}", view, e, nodes)));
        }
    }
    let mut weights = std::collections::BTreeMap::new();
    for (k, w, via) in &o.weights {
        if *via == "edge_references" {
            weights.insert(*k, *w);
        }
    }
    Ok(Truth {
        directed: o.directed.unwrap_or(true),
        nodes,
        edges,
        weights,
    })
}

pub fn node_keep(seed: u64, key: usize) -> bool {
    mix(seed, key as u64) % 3 != 0
}
pub fn edge_keep(seed: u64, k: EKey) -> bool {
    mix(seed ^ 0xE06E, k) % 3 != 0
}

// ---------------------------------------------------------------------------------------
// per-structure drivers
// ---------------------------------------------------------------------------------------

/// Full battery for a structure that implements the directed trait family (Graph,
/// StableGraph, GraphMap, MatrixGraph): base view, &-delegation, Reversed,
/// UndirectedAdaptor (directed bases), NodeFiltered, EdgeFiltered and depth-2 stackings.
#[macro_export]
macro_rules! visit_battery_directed {
    ($g:expr, $seed:expr, $nk:expr, $ek:expr, [$($basefeat:ident),*], compact = $compact:tt) => {{
        use petgraph::visit::*;
        use $crate::engines::visit::*;
        let g = $g;
        let seed: u64 = $seed;
        let nk = $nk;
        let ek = $ek;
        let ids: Vec<_> = g.node_identifiers().collect();
        let keys: Vec<usize> = ids.iter().map(|&n| nk(n)).collect();
        let base = $crate::view!(g; &ids, &nk, &ek; nodes, noderefs, edges, out, dir, ew, outw, dirw, vmap, index, ncount, ecount, prop $(, $basefeat)*);
        let truth = truth_of("base", &base, true)?;
        check_view("base", &base, &truth, Flavor::Normal, &keys)?;
        // & delegation
        let rr = &g;
        let v = $crate::view!(rr; &ids, &nk, &ek; nodes, noderefs, edges, out, dir, ew, outw, dirw, vmap, index, ncount, ecount, prop $(, $basefeat)*);
        check_view("&G", &v, &truth, Flavor::Normal, &keys)?;
        // Reversed
        let rev = Reversed(g);
        let v = $crate::view!(rev; &ids, &nk, &ek; nodes, noderefs, edges, out, dir, ew, outw, dirw, vmap, index, ncount, ecount, prop $(, $basefeat)*);
        let t_rev = truth.reversed();
        check_view("Reversed", &v, &t_rev, Flavor::Normal, &keys)?;
        // Reversed(Reversed)
        let rev2 = Reversed(Reversed(g));
        let v = $crate::view!(rev2; &ids, &nk, &ek; nodes, noderefs, edges, out, dir, ew, outw, dirw, vmap, index, ncount, ecount, prop);
        check_view("Reversed(Reversed)", &v, &truth, Flavor::Normal, &keys)?;
        // UndirectedAdaptor over a directed base
        if truth.directed {
            let und = UndirectedAdaptor(g);
            let v = $crate::view!(und; &ids, &nk, &ek; nodes, noderefs, edges, out, outw, vmap, index, ncount, prop);
            let mut t_und = truth.symmetrised();
            t_und.directed = false;
            // edge_references is delegated to the base (orientation as stored): compare as stored
            let mut v2 = v.clone();
            v2.edge_refs = None;
            check_view("UndirectedAdaptor", &v2, &t_und, Flavor::Symmetrised, &keys)?;
            if let Some(er) = &v.edge_refs {
                let mut a = er.clone(); a.sort();
                let mut b = truth.edges.clone(); b.sort();
                if a != b { return Err(("edge_references", format!("[UndirectedAdaptor] edge_references() = {:?}, base has {:?}", er, truth.edges))); }
            }
            let und_rev = UndirectedAdaptor(Reversed(g));
            let v = $crate::view!(und_rev; &ids, &nk, &ek; nodes, out, outw, vmap, index, ncount, prop);
            check_view("UndirectedAdaptor(Reversed)", &v, &t_und, Flavor::Symmetrised, &keys)?;
        }
        // filters stacked on UndirectedAdaptor (directed bases)
        if truth.directed {
            let s1u = mix(seed, 21);
            let nf_und = NodeFiltered::from_fn(UndirectedAdaptor(g), |n| node_keep(s1u, nk(n)));
            let r = &nf_und;
            let v = $crate::view!(r; &ids, &nk, &ek; nodes, noderefs, out, outw, vmap, index, prop);
            let mut t = truth.node_filtered(&|k| node_keep(s1u, k)).symmetrised();
            t.directed = false;
            check_view("NodeFiltered(UndirectedAdaptor)", &v, &t, Flavor::Symmetrised, &keys)?;
            let s2u = mix(seed, 22);
            let ef_und = EdgeFiltered::from_fn(UndirectedAdaptor(g), |e| edge_keep(s2u, ek(e.id())));
            let r = &ef_und;
            let v = $crate::view!(r; &ids, &nk, &ek; nodes, noderefs, out, outw, vmap, index, prop);
            let mut t = truth.edge_filtered(&|e| edge_keep(s2u, e.0)).symmetrised();
            t.directed = false;
            check_view("EdgeFiltered(UndirectedAdaptor)", &v, &t, Flavor::Symmetrised, &keys)?;
        }
        // NodeFiltered
        let s1 = mix(seed, 1);
        let nf = NodeFiltered::from_fn(g, |n| node_keep(s1, nk(n)));
        let nfr = &nf;
        let v = $crate::view!(nfr; &ids, &nk, &ek; nodes, noderefs, edges, out, dir, ew, outw, dirw, vmap, index, prop);
        let t_nf = truth.node_filtered(&|k| node_keep(s1, k));
        check_view("NodeFiltered", &v, &t_nf, Flavor::Normal, &keys)?;
        // EdgeFiltered
        let s2 = mix(seed, 2);
        let ef = EdgeFiltered::from_fn(g, |e| edge_keep(s2, ek(e.id())));
        let efr = &ef;
        let v = $crate::view!(efr; &ids, &nk, &ek; nodes, noderefs, edges, out, dir, ew, outw, dirw, vmap, index, ncount, prop);
        let t_ef = truth.edge_filtered(&|e| edge_keep(s2, e.0));
        check_view("EdgeFiltered", &v, &t_ef, Flavor::Normal, &keys)?;
        // depth 2
        let nf_rev = NodeFiltered::from_fn(Reversed(g), |n| node_keep(s1, nk(n)));
        let r = &nf_rev;
        let v = $crate::view!(r; &ids, &nk, &ek; nodes, noderefs, edges, out, dir, ew, outw, dirw, vmap, index, prop);
        check_view("NodeFiltered(Reversed)", &v, &t_nf.reversed(), Flavor::Normal, &keys)?;
        let rev_nf = Reversed(&nf);
        let v = $crate::view!(rev_nf; &ids, &nk, &ek; nodes, noderefs, edges, out, dir, ew, outw, dirw, vmap, index, prop);
        check_view("Reversed(NodeFiltered)", &v, &t_nf.reversed(), Flavor::Normal, &keys)?;
        let ef_rev = EdgeFiltered::from_fn(Reversed(g), |e| edge_keep(s2, ek(e.id())));
        let r = &ef_rev;
        let v = $crate::view!(r; &ids, &nk, &ek; nodes, noderefs, edges, out, dir, ew, outw, dirw, vmap, index, ncount, prop);
        check_view("EdgeFiltered(Reversed)", &v, &t_ef.reversed(), Flavor::Normal, &keys)?;
        let rev_ef = Reversed(&ef);
        let v = $crate::view!(rev_ef; &ids, &nk, &ek; nodes, noderefs, edges, out, dir, ew, outw, dirw, vmap, index, ncount, prop);
        check_view("Reversed(EdgeFiltered)", &v, &t_ef.reversed(), Flavor::Normal, &keys)?;
        let s3 = mix(seed, 3);
        let nf_nf = NodeFiltered::from_fn(&nf, |n| node_keep(s3, nk(n)));
        let r = &nf_nf;
        let v = $crate::view!(r; &ids, &nk, &ek; nodes, noderefs, edges, out, dir, ew, outw, dirw, vmap, index, prop);
        let t_nfnf = t_nf.node_filtered(&|k| node_keep(s3, k));
        check_view("NodeFiltered(NodeFiltered)", &v, &t_nfnf, Flavor::Normal, &keys)?;
        let ef_nf = EdgeFiltered::from_fn(&nf, |e| edge_keep(s2, ek(e.id())));
        let r = &ef_nf;
        let v = $crate::view!(r; &ids, &nk, &ek; nodes, noderefs, edges, out, dir, ew, outw, dirw, vmap, index, prop);
        let t_efnf = t_nf.edge_filtered(&|e| edge_keep(s2, e.0));
        check_view("EdgeFiltered(NodeFiltered)", &v, &t_efnf, Flavor::Normal, &keys)?;
        let nf_ef = NodeFiltered::from_fn(&ef, |n| node_keep(s1, nk(n)));
        let r = &nf_ef;
        let v = $crate::view!(r; &ids, &nk, &ek; nodes, noderefs, edges, out, dir, ew, outw, dirw, vmap, index, prop);
        let t_nfef = t_ef.node_filtered(&|k| node_keep(s1, k));
        check_view("NodeFiltered(EdgeFiltered)", &v, &t_nfef, Flavor::Normal, &keys)?;
        let ef_ef = EdgeFiltered::from_fn(&ef, |e| edge_keep(s3, ek(e.id())));
        let r = &ef_ef;
        let v = $crate::view!(r; &ids, &nk, &ek; nodes, noderefs, edges, out, dir, ew, outw, dirw, vmap, index, ncount, prop);
        let t_efef = t_ef.edge_filtered(&|e| edge_keep(s3, e.0));
        check_view("EdgeFiltered(EdgeFiltered)", &v, &t_efef, Flavor::Normal, &keys)?;
        if truth.directed {
            let und_nf = UndirectedAdaptor(&nf);
            let v = $crate::view!(und_nf; &ids, &nk, &ek; nodes, out, outw, vmap, index, prop);
            let mut t = t_nf.symmetrised();
            t.directed = false;
            check_view("UndirectedAdaptor(NodeFiltered)", &v, &t, Flavor::Symmetrised, &keys)?;
            let und_ef = UndirectedAdaptor(&ef);
            let v = $crate::view!(und_ef; &ids, &nk, &ek; nodes, out, outw, vmap, index, ncount, prop);
            let mut t = t_ef.symmetrised();
            t.directed = false;
            check_view("UndirectedAdaptor(EdgeFiltered)", &v, &t, Flavor::Symmetrised, &keys)?;
        }
        Ok::<Truth, VErr>(truth)
    }};
}

/// Things outside the trait-by-trait comparison: the set-based `FilterNode` implementations
/// (hashbrown `HashSet`, `FixedBitSet`, and references to them) must cut out the same
/// node-induced graph as the closure with the same membership, `ReversedEdgeReference` must
/// give its wrapped reference back, and `NodeFiltered`'s `DataMap` must hide exactly the
/// weights of the excluded nodes.
#[macro_export]
macro_rules! visit_battery_extras {
    ($g:expr, $seed:expr, $nk:expr, $ek:expr, [$($feat:ident),*], bitset = $bitset:tt, datamap = $datamap:tt, reversed = $reversed:tt) => {{
        use petgraph::visit::*;
        use $crate::engines::visit::*;
        let g = $g;
        let seed: u64 = $seed;
        let nk = $nk;
        let ek = $ek;
        let ids: Vec<_> = g.node_identifiers().collect();
        let keys: Vec<usize> = ids.iter().map(|&n| nk(n)).collect();
        let base = $crate::view!(g; &ids, &nk, &ek; nodes, edges, ew, prop);
        let truth = truth_of("base", &base, false)?;
        let s1 = mix(seed, 11);
        let t_nf = truth.node_filtered(&|k| node_keep(s1, k));
        let mut hs = hashbrown::HashSet::new();
        for &n in &ids {
            if node_keep(s1, nk(n)) {
                hs.insert(n);
            }
        }
        {
            let nf = NodeFiltered(g, &hs);
            let r = &nf;
            let v = $crate::view!(r; &ids, &nk, &ek; nodes, noderefs, edges, out, ew, outw, vmap, index, prop $(, $feat)*);
            check_view("NodeFiltered<&HashSet>", &v, &t_nf, Flavor::Normal, &keys)?;
        }
        {
            let nf = NodeFiltered(g, hs.clone());
            let r = &nf;
            let v = $crate::view!(r; &ids, &nk, &ek; nodes, noderefs, edges, out, ew, outw, vmap, index, prop $(, $feat)*);
            check_view("NodeFiltered<HashSet>", &v, &t_nf, Flavor::Normal, &keys)?;
        }
        $crate::visit_battery_extras!(@bitset $bitset, g, ids, keys, nk, ek, s1, t_nf, [$($feat),*]);
        $crate::visit_battery_extras!(@datamap $datamap, g, ids, nk, ek, s1);
        $crate::visit_battery_extras!(@reversed $reversed, g, nk, ek);
        Ok::<(), VErr>(())
    }};
    (@bitset true, $g:ident, $ids:ident, $keys:ident, $nk:ident, $ek:ident, $s1:ident, $t_nf:ident, [$($feat:ident),*]) => {
        let mut bs = fixedbitset::FixedBitSet::with_capacity($keys.iter().copied().max().map(|m| m + 1).unwrap_or(0));
        for &k in &$keys {
            if node_keep($s1, k) {
                bs.insert(k);
            }
        }
        {
            let nf = NodeFiltered($g, &bs);
            let r = &nf;
            let v = $crate::view!(r; &$ids, &$nk, &$ek; nodes, noderefs, edges, out, ew, outw, vmap, index, prop $(, $feat)*);
            check_view("NodeFiltered<&FixedBitSet>", &v, &$t_nf, Flavor::Normal, &$keys)?;
        }
        {
            let nf = NodeFiltered($g, bs.clone());
            let r = &nf;
            let v = $crate::view!(r; &$ids, &$nk, &$ek; nodes, noderefs, edges, out, ew, outw, vmap, index, prop $(, $feat)*);
            check_view("NodeFiltered<FixedBitSet>", &v, &$t_nf, Flavor::Normal, &$keys)?;
        }
    };
    (@bitset false, $g:ident, $ids:ident, $keys:ident, $nk:ident, $ek:ident, $s1:ident, $t_nf:ident, [$($feat:ident),*]) => {};
    (@datamap true, $g:ident, $ids:ident, $nk:ident, $ek:ident, $s1:ident) => {
        {
            use petgraph::data::DataMap;
            let nf = NodeFiltered::from_fn($g, |n| node_keep($s1, $nk(n)));
            for &n in &$ids {
                let through = DataMap::node_weight(&nf, n);
                let direct = DataMap::node_weight(&$g, n);
                let exp = if node_keep($s1, $nk(n)) { direct } else { None };
                if through != exp {
                    return Err(("node_weight", format!("[NodeFiltered] DataMap::node_weight({}) = {:?}, expected {:?} (node {})", $nk(n), through, exp, if node_keep($s1, $nk(n)) { "included" } else { "excluded" })));
                }
            }
            for e in $g.edge_references() {
                let through = DataMap::edge_weight(&nf, e.id());
                let direct = DataMap::edge_weight(&$g, e.id());
                if through != direct || direct != Some(e.weight()) {
                    return Err(("edge_weight", format!("[NodeFiltered] DataMap::edge_weight(edge {}) = {:?}, the graph says {:?}, its edge reference {:?}", $ek(e.id()), through, direct, e.weight())));
                }
            }
        }
    };
    (@datamap false, $g:ident, $ids:ident, $nk:ident, $ek:ident, $s1:ident) => {};
    (@reversed true, $g:ident, $nk:ident, $ek:ident) => {
        for e in Reversed($g).edge_references() {
            let desc = |what: &str, s: usize, t: usize, k: u64| format!("[Reversed] {} of the reversed reference {}->{} (edge {}) is {}->{} (edge {})", what, $nk(e.source()), $nk(e.target()), $ek(e.id()), s, t, k);
            let u = e.as_unreversed();
            if $nk(u.source()) != $nk(e.target()) || $nk(u.target()) != $nk(e.source()) || $ek(u.id()) != $ek(e.id()) || u.weight() != e.weight() {
                return Err(("reversed_edge_ref", desc("as_unreversed()", $nk(u.source()), $nk(u.target()), $ek(u.id()))));
            }
            let u = e.into_unreversed();
            if $nk(u.source()) != $nk(e.target()) || $nk(u.target()) != $nk(e.source()) || $ek(u.id()) != $ek(e.id()) {
                return Err(("reversed_edge_ref", desc("into_unreversed()", $nk(u.source()), $nk(u.target()), $ek(u.id()))));
            }
        }
    };
    (@reversed false, $g:ident, $nk:ident, $ek:ident) => {};
}

use crate::core::hasher::SimBuildHasher;
use petgraph::graph::{Graph, IndexType};
use petgraph::graphmap::GraphMap;
use petgraph::stable_graph::StableGraph;
use petgraph::EdgeType;

pub fn check_graph<Ty: EdgeType, Ix: IndexType>(g: &Graph<u32, u32, Ty, Ix>, seed: u64) -> Result<(), VErr> {
    let nk = |n: petgraph::graph::NodeIndex<Ix>| n.index();
    let ek = |e: petgraph::graph::EdgeIndex<Ix>| e.index() as u64;
    let _t = visit_battery_directed!(g, seed, nk, ek, [adj, compact, eindex], compact = true)?;
    crate::visit_battery_extras!(g, seed, nk, ek, [dir, dirw], bitset = true, datamap = true, reversed = true)?;
    Ok(())
}

pub fn check_stable<Ty: EdgeType, Ix: IndexType>(g: &StableGraph<u32, u32, Ty, Ix>, seed: u64) -> Result<(), VErr> {
    let nk = |n: petgraph::graph::NodeIndex<Ix>| n.index();
    let ek = |e: petgraph::graph::EdgeIndex<Ix>| e.index() as u64;
    let _t = visit_battery_directed!(g, seed, nk, ek, [adj, eindex], compact = false)?;
    crate::visit_battery_extras!(g, seed, nk, ek, [dir, dirw], bitset = true, datamap = true, reversed = true)?;
    Ok(())
}

pub fn check_graphmap<Ty: EdgeType>(g: &GraphMap<i32, u32, Ty, SimBuildHasher>, seed: u64) -> Result<(), VErr> {
    let nk = |n: i32| (n as i64 - i32::MIN as i64) as usize;
    let directed = Ty::is_directed();
    let ek = move |e: (i32, i32)| {
        let (a, b) = if directed || e.0 <= e.1 { e } else { (e.1, e.0) };
        ((a as u32 as u64) << 32) | (b as u32 as u64)
    };
    let _t = visit_battery_directed!(g, seed, nk, ek, [adj, compact, eindex], compact = true)?;
    crate::visit_battery_extras!(g, seed, nk, ek, [dir, dirw], bitset = false, datamap = false, reversed = true)?;
    Ok(())
}

/// `Frozen` must present the identical graph.
pub fn check_frozen_graph<Ty: EdgeType, Ix: IndexType>(g: &mut Graph<u32, u32, Ty, Ix>, _seed: u64) -> Result<(), VErr> {
    let nk = |n: petgraph::graph::NodeIndex<Ix>| n.index();
    let ek = |e: petgraph::graph::EdgeIndex<Ix>| e.index() as u64;
    let ids: Vec<_> = g.node_indices().collect();
    let keys: Vec<usize> = ids.iter().map(|&n| nk(n)).collect();
    let gr = &*g;
    let base = crate::view!(gr; &ids, &nk, &ek; nodes, edges, ew, prop);
    let truth = truth_of("base", &base, true)?;
    {
        // Into* traits are delegated for a Frozen wrapping a graph *reference*
        let mut r = &*g;
        let fr = petgraph::graph::Frozen::new(&mut r);
        let f = &fr;
        let v = crate::view!(f; &ids, &nk, &ek; nodes, noderefs, edges, out, dir, ew, outw, dirw);
        check_view("Frozen(&G)", &v, &truth, Flavor::Normal, &keys)?;
    }
    let fr = petgraph::graph::Frozen::new(g);
    let v = crate::view!(fr; &ids, &nk, &ek; index, compact, ncount, ecount, prop, adj, vmap);
    check_view("Frozen", &v, &truth, Flavor::Normal, &keys)
}

pub fn check_frozen_stable<Ty: EdgeType, Ix: IndexType>(g: &mut StableGraph<u32, u32, Ty, Ix>, _seed: u64) -> Result<(), VErr> {
    let nk = |n: petgraph::graph::NodeIndex<Ix>| n.index();
    let ek = |e: petgraph::graph::EdgeIndex<Ix>| e.index() as u64;
    let ids: Vec<_> = g.node_indices().collect();
    let keys: Vec<usize> = ids.iter().map(|&n| nk(n)).collect();
    let gr = &*g;
    let base = crate::view!(gr; &ids, &nk, &ek; nodes, edges, ew, prop);
    let truth = truth_of("base", &base, true)?;
    {
        let mut r = &*g;
        let fr = petgraph::graph::Frozen::new(&mut r);
        let f = &fr;
        let v = crate::view!(f; &ids, &nk, &ek; nodes, noderefs, edges, out, dir, ew, outw, dirw);
        check_view("Frozen(&G)", &v, &truth, Flavor::Normal, &keys)?;
    }
    let fr = petgraph::graph::Frozen::new(g);
    let v = crate::view!(fr; &ids, &nk, &ek; index, ncount, ecount, prop, adj, vmap);
    check_view("Frozen", &v, &truth, Flavor::Normal, &keys)
}

/// Battery for structures that only implement the undirected-level traits
/// (IntoNeighbors + IntoEdges): undirected MatrixGraph, Csr, adj::List.
#[macro_export]
macro_rules! visit_battery_basic {
    ($g:expr, $seed:expr, $nk:expr, $ek:expr, [$($basefeat:ident),*], unique_edge_ids = $uniq:expr) => {{
        use petgraph::visit::*;
        use $crate::engines::visit::*;
        let g = $g;
        let seed: u64 = $seed;
        let nk = $nk;
        let ek = $ek;
        let ids: Vec<_> = g.node_identifiers().collect();
        let keys: Vec<usize> = ids.iter().map(|&n| nk(n)).collect();
        let base = $crate::view!(g; &ids, &nk, &ek; nodes, noderefs, edges, out, ew, outw, vmap, index, ncount, prop $(, $basefeat)*);
        let truth = truth_of("base", &base, $uniq)?;
        check_view("base", &base, &truth, Flavor::Normal, &keys)?;
        let rr = &g;
        let v = $crate::view!(rr; &ids, &nk, &ek; nodes, noderefs, edges, out, ew, outw, vmap, index, ncount, prop $(, $basefeat)*);
        check_view("&G", &v, &truth, Flavor::Normal, &keys)?;
        let s1 = mix(seed, 1);
        let nf = NodeFiltered::from_fn(g, |n| node_keep(s1, nk(n)));
        let nfr = &nf;
        let v = $crate::view!(nfr; &ids, &nk, &ek; nodes, noderefs, edges, out, ew, outw, vmap, index, prop);
        let t_nf = truth.node_filtered(&|k| node_keep(s1, k));
        check_view("NodeFiltered", &v, &t_nf, Flavor::Normal, &keys)?;
        let s2 = mix(seed, 2);
        let ef = EdgeFiltered::from_fn(g, |e| edge_keep(s2, ek(e.id())));
        let efr = &ef;
        let v = $crate::view!(efr; &ids, &nk, &ek; nodes, noderefs, edges, out, ew, outw, vmap, index, ncount, prop);
        let t_ef = truth.edge_filtered(&|e| edge_keep(s2, e.0));
        check_view("EdgeFiltered", &v, &t_ef, Flavor::Normal, &keys)?;
        let s3 = mix(seed, 3);
        let nf_nf = NodeFiltered::from_fn(&nf, |n| node_keep(s3, nk(n)));
        let r = &nf_nf;
        let v = $crate::view!(r; &ids, &nk, &ek; nodes, noderefs, edges, out, ew, outw, vmap, index, prop);
        check_view("NodeFiltered(NodeFiltered)", &v, &t_nf.node_filtered(&|k| node_keep(s3, k)), Flavor::Normal, &keys)?;
        let ef_nf = EdgeFiltered::from_fn(&nf, |e| edge_keep(s2, ek(e.id())));
        let r = &ef_nf;
        let v = $crate::view!(r; &ids, &nk, &ek; nodes, noderefs, edges, out, ew, outw, vmap, index, prop);
        check_view("EdgeFiltered(NodeFiltered)", &v, &t_nf.edge_filtered(&|e| edge_keep(s2, e.0)), Flavor::Normal, &keys)?;
        let nf_ef = NodeFiltered::from_fn(&ef, |n| node_keep(s1, nk(n)));
        let r = &nf_ef;
        let v = $crate::view!(r; &ids, &nk, &ek; nodes, noderefs, edges, out, ew, outw, vmap, index, prop);
        check_view("NodeFiltered(EdgeFiltered)", &v, &t_ef.node_filtered(&|k| node_keep(s1, k)), Flavor::Normal, &keys)?;
        Ok::<Truth, VErr>(truth)
    }};
}

use petgraph::matrix_graph::{MatrixGraph, Nullable};
use petgraph::{Directed, Undirected};

pub fn check_matrix_directed<Null: Nullable<Wrapped = u32>, Ix: IndexType>(g: &MatrixGraph<u32, u32, SimBuildHasher, Directed, Null, Ix>, seed: u64) -> Result<(), VErr> {
    let nk = |n: petgraph::matrix_graph::NodeIndex<Ix>| n.index();
    let ek = |e: (petgraph::matrix_graph::NodeIndex<Ix>, petgraph::matrix_graph::NodeIndex<Ix>)| ((e.0.index() as u64) << 32) | e.1.index() as u64;
    let _t = visit_battery_directed!(g, seed, nk, ek, [adj], compact = false)?;
    crate::visit_battery_extras!(g, seed, nk, ek, [dir, dirw], bitset = true, datamap = false, reversed = true)?;
    Ok(())
}

pub fn check_matrix_undirected<Null: Nullable<Wrapped = u32>, Ix: IndexType>(g: &MatrixGraph<u32, u32, SimBuildHasher, Undirected, Null, Ix>, seed: u64) -> Result<(), VErr> {
    let nk = |n: petgraph::matrix_graph::NodeIndex<Ix>| n.index();
    let ek = |e: (petgraph::matrix_graph::NodeIndex<Ix>, petgraph::matrix_graph::NodeIndex<Ix>)| {
        let (a, b) = (e.0.index().min(e.1.index()), e.0.index().max(e.1.index()));
        ((a as u64) << 32) | b as u64
    };
    let _t = visit_battery_basic!(g, seed, nk, ek, [ecount, adj], unique_edge_ids = true)?;
    crate::visit_battery_extras!(g, seed, nk, ek, [], bitset = true, datamap = false, reversed = false)?;
    Ok(())
}

use petgraph::csr::Csr;

pub trait CsrVisit<Ix: IndexType>: EdgeType + Sized {
    fn visit(g: &Csr<u32, u32, Self, Ix>, seed: u64) -> Result<(), VErr>;
}
impl<Ix: IndexType> CsrVisit<Ix> for Directed {
    fn visit(g: &Csr<u32, u32, Self, Ix>, seed: u64) -> Result<(), VErr> {
        let nk = |n: Ix| n.index();
        let ek = |e: usize| e as u64;
        let _t = visit_battery_basic!(g, seed, nk, ek, [ecount, compact, adj], unique_edge_ids = true)?;
        crate::visit_battery_extras!(g, seed, nk, ek, [], bitset = true, datamap = false, reversed = false)?;
        Ok(())
    }
}
impl<Ix: IndexType> CsrVisit<Ix> for Undirected {
    fn visit(g: &Csr<u32, u32, Self, Ix>, seed: u64) -> Result<(), VErr> {
        let nk = |n: Ix| n.index();
        // Csr's EdgeId is the position in the column array, and an undirected edge sits in
        // two rows: the id is row-relative by design, so edges are matched by endpoints only
        // (Csr is a simple graph, so endpoints identify an edge).
        let ek = |_e: usize| 0u64;
        let _t = visit_battery_basic!(g, seed, nk, ek, [ecount, compact, adj], unique_edge_ids = false)?;
        crate::visit_battery_extras!(g, seed, nk, ek, [], bitset = true, datamap = false, reversed = false)?;
        Ok(())
    }
}

pub fn check_list<Ix: IndexType>(g: &petgraph::adj::List<u32, Ix>, seed: u64) -> Result<(), VErr> {
    let nk = |n: Ix| n.index();
    let ek = |e: petgraph::adj::EdgeIndex<Ix>| crate::core::fnv(format!("{:?}", e).as_bytes());
    let _t = visit_battery_basic!(g, seed, nk, ek, [ecount, compact, adj], unique_edge_ids = true)?;
    crate::visit_battery_extras!(g, seed, nk, ek, [], bitset = true, datamap = false, reversed = false)?;
    Ok(())
}

pub fn check_graphmap_u32<Ty: EdgeType>(g: &GraphMap<u32, u32, Ty, SimBuildHasher>, seed: u64) -> Result<(), VErr> {
    let nk = |n: u32| n as usize;
    let directed = Ty::is_directed();
    let ek = move |e: (u32, u32)| {
        let (a, b) = if directed || e.0 <= e.1 { e } else { (e.1, e.0) };
        ((a as u64) << 32) | (b as u64)
    };
    let _t = visit_battery_directed!(g, seed, nk, ek, [adj, compact, eindex], compact = true)?;
    Ok(())
}
