//! C14 — `Acyclic<G>` never lets a cycle in and keeps a valid topological order.
//! History engine over `Acyclic<DiGraph>` and `Acyclic<StableDiGraph>`. The inner graph is
//! compared against `AdjModel` with the same observation as C01/C02; acceptance of an edge
//! is predicted by a reachability DFS on the model.

use super::adjlist::check_obs;
use super::adjsut::{AdjSut, ObsPlan};
use super::{Exec, History, OpFeed, Width};
use crate::core::{catch, Acc, Rng, Tier, Violation};
use crate::models::adj::AdjModel;
use petgraph::acyclic::{Acyclic, AcyclicEdgeError};
use petgraph::data::Build;
use petgraph::graph::{DiGraph, EdgeIndex, IndexType, NodeIndex};
use petgraph::stable_graph::StableDiGraph;
use serde::{Deserialize, Serialize};
use std::collections::BTreeSet;
use std::convert::TryFrom;

#[derive(Clone, Debug, Serialize, Deserialize)]
pub struct Cfg {
    pub stable: bool,
    pub width: Width,
    pub max_nodes: usize,
    pub fault_permille: u32,
    pub obs_seed: u64,
    /// how the empty wrapper is made: 0 `Acyclic::new()`, 1 `Default`, 2 `Create::with_capacity`
    /// with the two numbers below (more nodes than edges and the other way round both occur)
    #[serde(default)]
    pub create: u8,
    #[serde(default)]
    pub cap_nodes: usize,
    #[serde(default)]
    pub cap_edges: usize,
    /// number of nodes added in one go at the start (0 = none): graphs of many hundred nodes
    #[serde(default)]
    pub bulk: usize,
}

#[derive(Clone, Debug, Serialize, Deserialize)]
pub enum Op {
    AddNode,
    BulkNodes(usize),
    /// mode: 0 try_add_edge, 1 try_update_edge, 2 Build::add_edge, 3 Build::update_edge
    AddEdge { a: usize, b: usize, mode: u8 },
    RemoveEdge(usize),
    RemoveNode(usize),
    IsValidEdge(usize, usize),
    /// replace by try_from_graph / TryFrom of a freshly built graph: `nodes` nodes, these
    /// edges, then remove the nodes in `holes` (vacancies for StableDiGraph, renumbering for DiGraph)
    TryFrom { nodes: usize, edges: Vec<(usize, usize)>, holes: Vec<usize>, via_trait: bool },
    Clone,
}

impl Op {
    fn kind(&self) -> (&'static str, u8) {
        match self {
            Op::AddNode => ("add_node", 0),
            Op::AddEdge { mode: 0, .. } => ("try_add_edge", 1),
            Op::AddEdge { mode: 1, .. } => ("try_update_edge", 2),
            Op::AddEdge { mode: 2, .. } => ("build_add_edge", 3),
            Op::AddEdge { .. } => ("build_update_edge", 4),
            Op::RemoveEdge(_) => ("remove_edge", 5),
            Op::RemoveNode(_) => ("remove_node", 6),
            Op::IsValidEdge(..) => ("is_valid_edge", 7),
            Op::TryFrom { .. } => ("try_from_graph", 8),
            Op::Clone => ("clone", 9),
            Op::BulkNodes(_) => ("bulk_add_nodes", 10),
        }
    }
}

pub struct AcyclicEngine {
    pub stable: bool,
}

impl History for AcyclicEngine {
    type Cfg = Cfg;
    type Op = Op;
    fn name(&self) -> &'static str {
        if self.stable {
            "acyclic-stable"
        } else {
            "acyclic-graph"
        }
    }
    fn rule(&self) -> &'static str {
        "history with >= 3 applied operations, >= 2 accepted edges and >= 1 rejected insertion or node removal"
    }
    fn gen_cfg(&self, rng: &mut Rng, tier: Tier) -> (Cfg, usize) {
        let base = if tier == Tier::Thorough { 30 } else { 20 };
        let width = Width::pick(rng);
        let bulk = if rng.chance(1, 70) { if width == Width::U8 { *rng.pick(&[70usize, 130, 200]) } else { *rng.pick(&[70usize, 300, 1030, 1100, 1500]) } } else { 0 };
        (
            Cfg {
                stable: self.stable,
                width,
                max_nodes: if bulk > 0 { bulk + 8 } else { *rng.pick(&[3usize, 5, 8, 8, 12, 20]) },
                fault_permille: *rng.pick(&[0u32, 100, 300]),
                obs_seed: rng.next_u64(),
                create: *rng.pick(&[0u8, 0, 1, 2, 2]),
                cap_nodes: rng.below(12),
                cap_edges: rng.below(12),
                bulk,
            },
            if bulk > 0 { rng.range(8, 30) } else { rng.geometric(1, base, 70) },
        )
    }
    fn execute(&self, cfg: &Cfg, feed: OpFeed<Op>, acc: &mut Acc, ops: &mut Vec<Op>) -> Exec {
        macro_rules! go {
            ($ix:ty) => {
                if self.stable {
                    run_stable::<$ix>(self.name(), cfg, feed, acc, ops)
                } else {
                    run_graph::<$ix>(self.name(), cfg, feed, acc, ops)
                }
            };
        }
        match cfg.width {
            Width::U8 => go!(u8),
            Width::U16 => go!(u16),
            Width::U32 => go!(u32),
            Width::Usize => go!(usize),
        }
    }
}

/// Is `to` reachable from `from` along model edges?
fn reaches(m: &AdjModel, from: usize, to: usize) -> bool {
    let mut seen = BTreeSet::new();
    let mut stack = vec![from];
    while let Some(x) = stack.pop() {
        if x == to {
            return true;
        }
        if !seen.insert(x) {
            continue;
        }
        for e in m.out_list(x) {
            stack.push(e.2);
        }
    }
    false
}

fn model_acyclic_edges(n: usize, edges: &[(usize, usize)]) -> bool {
    // Kahn
    let mut indeg = vec![0usize; n];
    for &(_, b) in edges {
        indeg[b] += 1;
    }
    let mut q: Vec<usize> = (0..n).filter(|&i| indeg[i] == 0).collect();
    let mut seen = 0;
    while let Some(x) = q.pop() {
        seen += 1;
        for &(a, b) in edges {
            if a == x {
                indeg[b] -= 1;
                if indeg[b] == 0 {
                    q.push(b);
                }
            }
        }
    }
    seen == n
}

fn gen_op(rng: &mut Rng, cfg: &Cfg, m: &AdjModel, last_refused: Option<(usize, usize)>) -> Op {
    let live = m.live_nodes();
    if cfg.bulk > 0 && m.nodes.is_empty() {
        return Op::BulkNodes(cfg.bulk);
    }
    let node = |rng: &mut Rng| -> usize { live[rng.below(live.len())] };
    let absent = |rng: &mut Rng| -> usize {
        let vac = m.vacant_nodes();
        if !vac.is_empty() && rng.chance(1, 2) {
            vac[rng.below(vac.len())]
        } else {
            (m.nodes.len() + rng.below(2)).min(m.max_index)
        }
    };
    for _ in 0..20 {
        return match rng.below(100) {
            0..=14 => {
                if live.len() >= cfg.max_nodes {
                    continue;
                }
                Op::AddNode
            }
            15..=59 => {
                if live.len() < 2 {
                    if live.is_empty() {
                        Op::AddNode
                    } else {
                        Op::AddEdge { a: live[0], b: live[0], mode: rng.below(3) as u8 }
                    }
                } else {
                    let (a, b) = match rng.below(10) {
                        0 => {
                            let a = node(rng);
                            (a, a)
                        }
                        1..=3 if m.m_live() > 0 => {
                            // reverse of an existing edge, or of a two-step path: cycle candidates
                            let le = m.live_edges();
                            let e = m.edge(le[rng.below(le.len())]).unwrap();
                            let mut tail = e.b;
                            if rng.chance(1, 2) {
                                if let Some(n2) = m.out_list(tail).first() {
                                    tail = n2.2;
                                }
                            }
                            (tail, e.a)
                        }
                        4 if last_refused.map_or(false, |(x, y)| m.node(x).is_some() && m.node(y).is_some()) => {
                            // retry of the pair that was refused last (the path that made it a
                            // cycle may be gone by now)
                            last_refused.unwrap()
                        }
                        _ => (node(rng), node(rng)),
                    };
                    // Build::update_edge panics on an invalid edge: only as an injected fault
                    let mut mode = rng.below(4) as u8;
                    if mode == 3 && (rng.below(1000) as u32) >= cfg.fault_permille && (a == b || reaches(m, b, a)) {
                        mode = 1;
                    }
                    Op::AddEdge { a, b, mode }
                }
            }
            60..=67 => {
                let le = m.live_edges();
                if le.is_empty() || (rng.below(1000) as u32) < cfg.fault_permille {
                    Op::RemoveEdge((m.edges.len() + rng.below(2)).min(m.max_index))
                } else if let (Some((_, y)), true) = (last_refused, rng.chance(1, 3)) {
                    // cut a path that starts at the refused edge's target
                    match m.out_list(y).first() {
                        Some(e) => Op::RemoveEdge(e.0),
                        None => Op::RemoveEdge(le[rng.below(le.len())]),
                    }
                } else {
                    Op::RemoveEdge(le[rng.below(le.len())])
                }
            }
            68..=79 => {
                if live.is_empty() || (rng.below(1000) as u32) < cfg.fault_permille {
                    Op::RemoveNode(absent(rng))
                } else if m.compact && live.len() > 1 && rng.chance(2, 3) {
                    // bias to a non-last node: another node gets renumbered
                    Op::RemoveNode(live[rng.below(live.len() - 1)])
                } else {
                    Op::RemoveNode(node(rng))
                }
            }
            80..=87 => {
                if live.len() < 2 {
                    continue;
                }
                Op::IsValidEdge(node(rng), node(rng))
            }
            88..=93 => {
                let n = rng.range(0, 6);
                let k = if n == 0 { 0 } else { rng.below(8) };
                let forward_only = rng.chance(1, 2);
                let edges: Vec<(usize, usize)> = (0..k)
                    .map(|_| {
                        let (a, b) = (rng.below(n), rng.below(n));
                        if forward_only && a > b {
                            (b, a)
                        } else {
                            (a, b)
                        }
                    })
                    .collect();
                let holes: Vec<usize> = if n > 0 && rng.chance(1, 2) { (0..rng.range(1, 2)).map(|_| rng.below(n + 2)).collect() } else { vec![] };
                Op::TryFrom { nodes: n + holes.len(), edges, holes, via_trait: rng.chance(1, 2) }
            }
            94..=95 => Op::Clone,
            _ => {
                if live.len() >= cfg.max_nodes {
                    continue;
                }
                Op::AddNode
            }
        };
    }
    Op::IsValidEdge(0, 0)
}

macro_rules! acyclic_runner {
    ($fname:ident, $G:ident, $compact:expr) => {
        fn $fname<Ix: IndexType>(name: &'static str, cfg: &Cfg, mut feed: OpFeed<Op>, acc: &mut Acc, ops: &mut Vec<Op>) -> Exec {
            type G<Ix> = $G<u32, u32, Ix>;
            let max_index = <Ix as IndexType>::max().index();
            let mut ac: Acyclic<G<Ix>> = match cfg.create {
                1 => Default::default(),
                2 => <Acyclic<G<Ix>> as petgraph::data::Create>::with_capacity(cfg.cap_nodes, cfg.cap_edges),
                _ => Acyclic::new(),
            };
            let mut m = AdjModel::new($compact, true, max_index);
            let mut next_w = 100u32;
            let ni = |i: usize| NodeIndex::<Ix>::new(i.min(max_index));
            let mut st = St { name, step: 0, accepted: 0, rejected: 0, node_removals: 0 };
            let mut fresh = || {
                next_w += 1;
                next_w
            };
            // the order as a sequence of node indices
            let order_of = |ac: &Acyclic<G<Ix>>| -> Vec<usize> { ac.nodes_iter().map(|n| n.index()).collect() };

            let mut last_refused: Option<(usize, usize)> = None;
            while let Some(op) = feed.next(|rng| gen_op(rng, cfg, &m, last_refused)) {
                ops.push(op.clone());
                let (kind, code) = op.kind();
                acc.op(kind, code);
                let live = |a: usize| m.node(a).is_some();
                let mut unchanged_expected: Option<(Vec<usize>, super::adjsut::Obs, ObsPlan)> = None;
                let full_plan = |m: &AdjModel| -> ObsPlan {
                    let mut nodes = m.live_nodes();
                    for v in m.vacant_nodes().into_iter().take(2) {
                        nodes.push(v);
                    }
                    nodes.push(m.nodes.len().min(m.max_index));
                    let edges: Vec<usize> = (0..(m.edges.len() + 1).min(m.max_index.saturating_add(1))).collect();
                    let mut pairs = Vec::new();
                    for &a in nodes.iter().take(9) {
                        for &b in nodes.iter().take(9) {
                            pairs.push((a, b));
                        }
                    }
                    ObsPlan { nodes, edges, pairs }
                };
                match &op {
                    Op::AddNode => {
                        if m.n_live() >= 200usize.min(max_index.saturating_sub(1)) {
                            acc.probe("acyclic_add_node_skipped_at_cap");
                        } else {
                            let w = fresh();
                            match catch(|| Build::add_node(&mut ac, w).index()) {
                                Ok(i) => {
                                    if m.node(i).is_some() || i > m.nodes.len() {
                                        return st.fail(kind, "index", format!("add_node returned index {} ({} slots, live: {})", i, m.nodes.len(), m.node(i).is_some()));
                                    }
                                    acc.probe_if(i < m.nodes.len(), "acyclic_vacancy_reused");
                                    m.insert_node(i, w);
                                }
                                Err(p) => return st.fail(kind, "panic", format!("add_node panicked: {}", p)),
                            }
                        }
                    }
                    Op::BulkNodes(k) => {
                        for _ in 0..(*k).min(1600) {
                            if m.n_live() >= max_index.saturating_sub(1) {
                                break;
                            }
                            let w = fresh();
                            match catch(|| Build::add_node(&mut ac, w).index()) {
                                Ok(i) => {
                                    if m.node(i).is_some() || i > m.nodes.len() {
                                        return st.fail(kind, "index", format!("add_node returned index {} ({} slots, live: {})", i, m.nodes.len(), m.node(i).is_some()));
                                    }
                                    m.insert_node(i, w);
                                }
                                Err(p) => return st.fail(kind, "panic", format!("add_node panicked with {} nodes: {}", m.n_live(), p)),
                            }
                        }
                        acc.probe_if(m.n_live() > 1024, "acyclic_more_than_1024_nodes");
                    }
                    Op::AddEdge { a, b, mode } => {
                        let (a, b) = (*a, *b);
                        if !live(a) || !live(b) {
                            acc.probe("acyclic_edge_op_skipped_absent_node");
                        } else {
                            let self_loop = a == b;
                            let cycle = !self_loop && reaches(&m, b, a);
                            if cycle {
                                last_refused = Some((a, b));
                            }
                            let valid = !self_loop && !cycle;
                            let w = fresh();
                            let before_order = order_of(&ac);
                            let plan = full_plan(&m);
                            let before_obs = match catch(|| ac.inner().snapshot(&plan)) {
                                Ok(o) => o,
                                Err(p) => return st.fail(kind, "observe-panic", format!("observation panicked: {}", p)),
                            };
                            // is_valid_edge must predict the outcome
                            match catch(|| ac.is_valid_edge(ni(a), ni(b))) {
                                Ok(v) => {
                                    if v != valid {
                                        return st.fail(kind, "is_valid_edge", format!("is_valid_edge({}, {}) = {} but the edge {}", a, b, v, if valid { "closes no cycle" } else if self_loop { "is a self-loop" } else { "would close a cycle" }));
                                    }
                                }
                                Err(p) => return st.fail(kind, "panic", format!("is_valid_edge({}, {}) panicked: {}", a, b, p)),
                            }
                            let r: Result<Result<usize, String>, String> = match mode % 4 {
                                0 => catch(|| ac.try_add_edge(ni(a), ni(b), w).map(|e| e.index()).map_err(|e| err_name(&e))),
                                1 => catch(|| ac.try_update_edge(ni(a), ni(b), w).map(|e| e.index()).map_err(|e| err_name(&e))),
                                2 => catch(|| Build::add_edge(&mut ac, ni(a), ni(b), w).map(|e| e.index()).ok_or_else(|| "None".to_string())),
                                _ => catch(|| Ok(Build::update_edge(&mut ac, ni(a), ni(b), w).index())),
                            };
                            let is_update = mode % 4 == 1 || mode % 4 == 3;
                            match (r, valid) {
                                (Ok(Ok(e)), true) => {
                                    let joining = m.edges_joining(a, b);
                                    if is_update && !joining.is_empty() {
                                        if !joining.contains(&e) {
                                            return st.fail(kind, "updated-wrong-edge", format!("{}({}, {}) returned edge {} (candidates {:?})", kind, a, b, e, joining));
                                        }
                                        m.edges[e].as_mut().unwrap().w = w;
                                    } else {
                                        if m.edge(e).is_some() || e > m.edges.len() {
                                            return st.fail(kind, "index", format!("{}({}, {}) returned edge index {}", kind, a, b, e));
                                        }
                                        m.insert_edge(e, a, b, w);
                                    }
                                    st.accepted += 1;
                                    acc.probe_if(before_order != order_of(&ac), "acyclic_order_was_rearranged");
                                }
                                (Ok(Err(e)), false) => {
                                    st.rejected += 1;
                                    acc.fault(if self_loop { "rejected_self_loop" } else { "rejected_cycle" });
                                    let exp = if self_loop { "SelfLoop" } else { "Cycle" };
                                    if mode % 4 < 2 && e != exp {
                                        return st.fail(kind, "wrong-error", format!("{}({}, {}) returned {} instead of {}", kind, a, b, e, exp));
                                    }
                                    unchanged_expected = Some((before_order, before_obs, plan));
                                }
                                (Err(_), false) if mode % 4 == 3 => {
                                    st.rejected += 1;
                                    acc.fault("documented_panic");
                                    unchanged_expected = Some((before_order, before_obs, plan));
                                }
                                (Ok(Ok(e)), false) => return st.fail(kind, "cycle-admitted", format!("{}({}, {}) returned Ok({}) although the edge {}", kind, a, b, e, if self_loop { "is a self-loop" } else { "closes a cycle" })),
                                (Ok(Err(e)), true) => return st.fail(kind, "valid-edge-rejected", format!("{}({}, {}) returned {} although the edge closes no cycle", kind, a, b, e)),
                                (Err(p), _) => return st.fail(kind, "panic", format!("{}({}, {}) panicked: {}", kind, a, b, p)),
                            }
                        }
                    }
                    Op::RemoveEdge(e) => {
                        let e = (*e).min(max_index);
                        let exp = m.edge(e).map(|x| x.w);
                        if exp.is_none() {
                            acc.fault("absent_index");
                        }
                        match catch(|| ac.remove_edge(EdgeIndex::<Ix>::new(e))) {
                            Ok(r) => {
                                if r != exp {
                                    return st.fail(kind, "result", format!("remove_edge({}) = {:?}, model {:?}", e, r, exp));
                                }
                            }
                            Err(p) => return st.fail(kind, "panic", format!("remove_edge({}) panicked: {}", e, p)),
                        }
                        if exp.is_some() {
                            let (nl, el) = (ac.inner().node_listing(), ac.inner().edge_listing());
                            let dead: BTreeSet<usize> = [e].into_iter().collect();
                            if let Err(d) = m.remove_many(&BTreeSet::new(), &dead, &nl, &el) {
                                return st.fail(kind, "renumbering", format!("{}", d));
                            }
                        }
                    }
                    Op::RemoveNode(a) => {
                        let a = (*a).min(max_index);
                        let exp = m.node(a).map(|x| x.w);
                        if exp.is_none() {
                            acc.fault("absent_node");
                            acc.probe_if(a < m.nodes.len(), "acyclic_remove_vacant_node");
                            let before_order = order_of(&ac);
                            let plan = full_plan(&m);
                            let before_obs = match catch(|| ac.inner().snapshot(&plan)) {
                                Ok(o) => o,
                                Err(p) => return st.fail(kind, "observe-panic", format!("observation panicked: {}", p)),
                            };
                            unchanged_expected = Some((before_order, before_obs, plan));
                        } else {
                            acc.probe_if(m.compact && a + 1 != m.nodes.len(), "acyclic_digraph_remove_non_last_node");
                        }
                        match (catch(|| ac.remove_node(ni(a))), exp) {
                            (Ok(r), Some(w)) => {
                                if r != Some(w) {
                                    return st.fail(kind, "result", format!("remove_node({}) = {:?}, model Some({})", a, r, w));
                                }
                                st.node_removals += 1;
                                let (nl, el) = (ac.inner().node_listing(), ac.inner().edge_listing());
                                let dead: BTreeSet<usize> = [a].into_iter().collect();
                                if let Err(d) = m.remove_many(&dead, &BTreeSet::new(), &nl, &el) {
                                    return st.fail(kind, "renumbering", format!("{}", d));
                                }
                            }
                            (Ok(r), None) => {
                                if r.is_some() {
                                    return st.fail(kind, "result", format!("remove_node({}) = {:?} for an absent node", a, r));
                                }
                            }
                            (Err(_), None) => acc.fault("panic_on_absent_node"),
                            (Err(p), Some(_)) => return st.fail(kind, "panic", format!("remove_node({}) panicked on a live node: {}", a, p)),
                        }
                    }
                    Op::IsValidEdge(a, b) => {
                        let (a, b) = (*a, *b);
                        if live(a) && live(b) {
                            let valid = a != b && !reaches(&m, b, a);
                            match catch(|| ac.is_valid_edge(ni(a), ni(b))) {
                                Ok(v) => {
                                    if v != valid {
                                        return st.fail(kind, "result", format!("is_valid_edge({}, {}) = {}, model {}", a, b, v, valid));
                                    }
                                }
                                Err(p) => return st.fail(kind, "panic", format!("is_valid_edge({}, {}) panicked: {}", a, b, p)),
                            }
                        }
                    }
                    Op::TryFrom { nodes, edges, holes, via_trait } => {
                        let n = (*nodes).min(12);
                        let mut g: G<Ix> = Default::default();
                        let mut fm = AdjModel::new($compact, true, max_index);
                        for _ in 0..n {
                            let w = fresh();
                            let i = g.add_node(w).index();
                            fm.insert_node(i, w);
                        }
                        for &(a, b) in edges.iter() {
                            if a < n && b < n {
                                let w = fresh();
                                let e = g.add_edge(ni(a), ni(b), w).index();
                                fm.insert_edge(e, a, b, w);
                            }
                        }
                        for &h in holes.iter() {
                            if fm.node(h).is_some() {
                                g.remove_node(ni(h));
                                let (nl, el) = (g.node_listing(), g.edge_listing());
                                let dead: BTreeSet<usize> = [h].into_iter().collect();
                                if fm.remove_many(&dead, &BTreeSet::new(), &nl, &el).is_err() {
                                    // the inner graph's own behaviour is C01/C02's business
                                    acc.probe("acyclic_try_from_setup_mismatch");
                                }
                            }
                        }
                        let es: Vec<(usize, usize)> = fm.live_edges().iter().map(|&i| { let e = fm.edge(i).unwrap(); (e.a, e.b) }).collect();
                        let acyclic = model_acyclic_edges(fm.nodes.len(), &es);
                        acc.probe_if(!fm.vacant_nodes().is_empty(), "acyclic_try_from_graph_with_vacancies");
                        let r = if *via_trait { catch(|| Acyclic::try_from(g).map_err(|_| ())) } else { catch(|| Acyclic::try_from_graph(g).map_err(|_| ())) };
                        match (r, acyclic) {
                            (Ok(Ok(a2)), true) => {
                                ac = a2;
                                m = fm;
                            }
                            (Ok(Err(())), false) => acc.fault("cyclic_graph_rejected"),
                            (Ok(Ok(_)), false) => return st.fail(kind, "cycle-admitted", format!("try_from_graph accepted a cyclic graph: {} nodes, edges {:?}", fm.nodes.len(), es)),
                            (Ok(Err(())), true) => return st.fail(kind, "acyclic-rejected", format!("try_from_graph rejected an acyclic graph: {} nodes, edges {:?}", fm.nodes.len(), es)),
                            (Err(p), _) => return st.fail(kind, "panic", format!("try_from_graph panicked: {}", p)),
                        }
                    }
                    Op::Clone => {
                        let c = ac.clone();
                        ac = c;
                    }
                }
                // ---- invariants after every step
                let plan = match &unchanged_expected {
                    Some((_, _, p)) => ObsPlan { nodes: p.nodes.clone(), edges: p.edges.clone(), pairs: p.pairs.clone() },
                    None => full_plan(&m),
                };
                let obs = match catch(|| ac.inner().snapshot(&plan)) {
                    Ok(o) => o,
                    Err(p) => return st.fail(kind, "observe-panic", format!("a query on the inner graph panicked after {}: {}", kind, p)),
                };
                let order = match catch(|| order_of(&ac)) {
                    Ok(o) => o,
                    Err(p) => return st.fail(kind, "observe-panic", format!("nodes_iter panicked after {}: {}", kind, p)),
                };
                if let Some((bo, bobs, _)) = &unchanged_expected {
                    if *bobs != obs {
                        return st.fail(kind, "rejected-call-changed-graph", format!("{} was rejected / named an absent node but the inner graph changed", kind));
                    }
                    if *bo != order {
                        return st.fail(kind, "rejected-call-changed-order", format!("{} was rejected / named an absent node but the order changed from {:?} to {:?}", kind, bo, order));
                    }
                }
                if let Err((c, d)) = check_obs(&m, &obs, &plan) {
                    return st.fail(kind, c, format!("inner graph: {}", d));
                }
                let live_n = m.live_nodes();
                let mut sorted_order = order.clone();
                sorted_order.sort();
                if sorted_order != live_n {
                    return st.fail(kind, "order-nodes", format!("nodes_iter() = {:?} but the live nodes are {:?}", order, live_n));
                }
                let positions = catch(|| {
                    let mut v = Vec::new();
                    for &n in &live_n {
                        let p = ac.get_position(ni(n));
                        v.push((n, p, ac.at_position(p).map(|x| x.index())));
                    }
                    let rng_all: Vec<usize> = ac.range(..).map(|x| x.index()).collect();
                    (v, rng_all)
                });
                let (pos, range_all) = match positions {
                    Ok(x) => x,
                    Err(p) => return st.fail(kind, "observe-panic", format!("get_position/at_position/range panicked after {}: {}", kind, p)),
                };
                if range_all != order {
                    return st.fail(kind, "range", format!("range(..) = {:?} differs from nodes_iter() = {:?}", range_all, order));
                }
                // every form of bounds between two positions of the order
                if order.len() >= 1 {
                    use std::ops::Bound::{Excluded, Included, Unbounded};
                    let salt = (st.step * 7 + order.len() * 3 + m.m_live()) as usize;
                    let (mut i, mut j) = (salt % order.len(), (salt / 3) % order.len());
                    if i > j {
                        std::mem::swap(&mut i, &mut j);
                    }
                    let r = catch(|| {
                        let (p, q) = (ac.get_position(ni(order[i])), ac.get_position(ni(order[j])));
                        let c = |it: &mut dyn Iterator<Item = NodeIndex<Ix>>| -> Vec<usize> { it.map(|x| x.index()).collect() };
                        vec![
                            ("p..q", c(&mut ac.range(p..q)), order[i..j].to_vec()),
                            ("p..=q", c(&mut ac.range(p..=q)), order[i..=j].to_vec()),
                            ("p..", c(&mut ac.range(p..)), order[i..].to_vec()),
                            ("..q", c(&mut ac.range(..q)), order[..j].to_vec()),
                            ("..=q", c(&mut ac.range(..=q)), order[..=j].to_vec()),
                            ("(Excluded(p), Included(q))", c(&mut ac.range((Excluded(p), Included(q)))), if i < j { order[i + 1..=j].to_vec() } else { vec![] }),
                            ("(Excluded(p), Excluded(q))", c(&mut ac.range((Excluded(p), Excluded(q)))), if i < j { order[i + 1..j].to_vec() } else { vec![] }),
                            ("(Excluded(p), Unbounded)", c(&mut ac.range((Excluded(p), Unbounded))), order[i + 1..].to_vec()),
                            ("(Included(p), Unbounded)", c(&mut ac.range((Included(p), Unbounded))), order[i..].to_vec()),
                            ("(Unbounded, Excluded(q))", c(&mut ac.range((Unbounded, Excluded(q)))), order[..j].to_vec()),
                        ]
                    });
                    match r {
                        Ok(v) => {
                            for (form, got, exp) in v {
                                if got != exp {
                                    return st.fail(kind, "range", format!("range({}) with p = position of node {} and q = position of node {} gives {:?}, the order {:?} implies {:?}", form, order[i], order[j], got, order, exp));
                                }
                            }
                        }
                        // (Excluded(p), Excluded(p)) and the like may be refused by the underlying BTreeMap
                        Err(p) => {
                            if i < j {
                                return st.fail(kind, "observe-panic", format!("range over two different positions panicked after {}: {}", kind, p));
                            }
                        }
                    }
                }
                for (n, _p, back) in &pos {
                    if *back != Some(*n) {
                        return st.fail(kind, "position-inverse", format!("at_position(get_position({})) = {:?}", n, back));
                    }
                }
                // nodes_iter is sorted by position
                for w in order.windows(2) {
                    let pa = pos.iter().find(|x| x.0 == w[0]).unwrap().1;
                    let pb = pos.iter().find(|x| x.0 == w[1]).unwrap().1;
                    if !(pa < pb) {
                        return st.fail(kind, "order-positions", format!("nodes_iter() lists {} before {} but their positions are {:?} and {:?}", w[0], w[1], pa, pb));
                    }
                }
                for &e in &m.live_edges() {
                    let ed = m.edge(e).unwrap();
                    let pa = pos.iter().find(|x| x.0 == ed.a).unwrap().1;
                    let pb = pos.iter().find(|x| x.0 == ed.b).unwrap().1;
                    if !(pa < pb) {
                        return st.fail(kind, "edge-against-order", format!("edge {} -> {} goes from position {:?} to {:?}", ed.a, ed.b, pa, pb));
                    }
                }
                acc.state(m.hash());
                st.step += 1;
            }
            Exec { violation: None, nontrivial: st.nontrivial() }
        }
    };
}

struct St {
    name: &'static str,
    step: usize,
    accepted: usize,
    rejected: usize,
    node_removals: usize,
}
impl St {
    fn nontrivial(&self) -> bool {
        self.step >= 3 && self.accepted >= 2 && (self.rejected + self.node_removals) >= 1
    }
    fn fail(&self, kind: &str, check: &str, detail: String) -> Exec {
        Exec { violation: Some(Violation::new(format!("{}/{}/{}", self.name, kind, check), detail, self.step)), nontrivial: self.nontrivial() }
    }
}

fn err_name<N>(e: &AcyclicEdgeError<N>) -> String {
    match e {
        AcyclicEdgeError::Cycle(_) => "Cycle".into(),
        AcyclicEdgeError::SelfLoop => "SelfLoop".into(),
        AcyclicEdgeError::InvalidEdge => "InvalidEdge".into(),
    }
}

acyclic_runner!(run_graph, DiGraph, true);
acyclic_runner!(run_stable, StableDiGraph, false);
