//! C07 — generic algorithms depend only on the abstract graph, not on its representation.
//!
//! One seeded abstract graph (labelled nodes, weighted edges) is delivered to up to seven
//! replicas -- Graph<u32> (reference, built cleanly), Graph<u8>, StableGraph<u16>,
//! MatrixGraph<u16>, GraphMap, Csr<u32>, adj::List<u8> -- by a simulated transport that
//! reorders insertions, pads the stream with nodes/edges that are removed again (vacancies
//! below node_bound/edge_bound, swap-renumbering) and inserts neutral detours. Every replica
//! is first checked to hold the same abstract graph; then every (algorithm, replica) pair
//! that type-checks is run under a simulator-chosen hasher seed and its answer, mapped back
//! to labels, is compared with the reference replica: equal where the answer is unique,
//! valid and equally optimal where it is not, valid only for heuristics. Only cheap
//! validators are used -- no reference implementation of any algorithm.

use super::{Exec, History, OpFeed};
use crate::core::hasher::{set_sim_hasher, SimBuildHasher};
use crate::core::{catch, mix, Acc, Rng, StateHasher, Tier, Violation};
use petgraph::adj::List;
use petgraph::algo;
use petgraph::csr::Csr;
use petgraph::data::Element;
use petgraph::graph::{Graph, IndexType, NodeIndex};
use petgraph::graphmap::GraphMap;
use petgraph::matrix_graph::MatrixGraph;
use petgraph::stable_graph::StableGraph;
use petgraph::visit::{Bfs, Dfs, DfsPostOrder, EdgeRef, IntoEdgeReferences, IntoNodeIdentifiers, NodeIndexable, Topo, Walker};
use petgraph::{Directed, EdgeType, Undirected};
use serde::{Deserialize, Serialize};
use std::collections::{BTreeMap, BTreeSet};

// ---------------------------------------------------------------------------------------
// abstract graph, results, validators
// ---------------------------------------------------------------------------------------

#[derive(Clone, Debug)]
pub struct Abs {
    pub directed: bool,
    pub n: usize,
    /// (a, b, weight) -- weights are small integers stored as f64 (all arithmetic exact)
    pub edges: Vec<(usize, usize, f64)>,
    pub simple: bool,
}

impl Abs {
    fn canon(&self, a: usize, b: usize) -> (usize, usize) {
        if self.directed || a <= b {
            (a, b)
        } else {
            (b, a)
        }
    }
    fn edge_multiset(&self) -> Vec<(usize, usize, i64)> {
        let mut v: Vec<(usize, usize, i64)> = self.edges.iter().map(|&(a, b, w)| { let (x, y) = self.canon(a, b); (x, y, w as i64) }).collect();
        v.sort();
        v
    }
    fn succ(&self, a: usize) -> Vec<(usize, f64)> {
        let mut v = Vec::new();
        for &(x, y, w) in &self.edges {
            if x == a {
                v.push((y, w));
            } else if !self.directed && y == a {
                v.push((x, w));
            }
        }
        v
    }
    fn has_edge(&self, a: usize, b: usize) -> bool {
        self.edges.iter().any(|&(x, y, _)| (x == a && y == b) || (!self.directed && x == b && y == a))
    }
    fn min_weight(&self, a: usize, b: usize) -> Option<f64> {
        self.edges.iter().filter(|&&(x, y, _)| (x == a && y == b) || (!self.directed && x == b && y == a)).map(|e| e.2).fold(None, |m, w| Some(m.map_or(w, |mm: f64| mm.min(w))))
    }
    fn reach(&self, s: usize) -> BTreeSet<usize> {
        let mut seen = BTreeSet::new();
        let mut st = vec![s];
        while let Some(x) = st.pop() {
            if seen.insert(x) {
                for (y, _) in self.succ(x) {
                    st.push(y);
                }
            }
        }
        seen
    }
    fn has_negative(&self) -> bool {
        self.edges.iter().any(|e| e.2 < 0.0)
    }
}

#[derive(Clone, Debug, PartialEq)]
pub enum Res {
    NA,
    Panic(String),
    Bool(bool),
    Num(i64),
    Float(f64),
    Set(BTreeSet<usize>),
    Seq(Vec<usize>),
    /// label -> value
    Map(Vec<(usize, f64)>),
    PairMap(Vec<((usize, usize), f64)>),
    Partition(BTreeSet<BTreeSet<usize>>),
    /// ordered list of components
    Components(Vec<BTreeSet<usize>>),
    Failed(String),
    /// (objective, witness edges (a, b, w))
    Edges(f64, Vec<(usize, usize, f64)>),
    LabelMap(Vec<(usize, usize)>),
    Paths(BTreeSet<Vec<usize>>),
    /// distances + predecessor per label
    Tree(Vec<(usize, f64)>, Vec<(usize, Option<usize>)>),
    /// max-flow value, per-edge (a, b, capacity, flow)
    Flow(f64, Vec<(usize, usize, f64, f64)>),
    Floats(Vec<(usize, f64)>),
    Text(String),
}

fn is_topo_order(a: &Abs, order: &[usize]) -> Result<(), String> {
    let mut pos = vec![usize::MAX; a.n];
    for (i, &x) in order.iter().enumerate() {
        if x >= a.n || pos[x] != usize::MAX {
            return Err(format!("order {:?} repeats or invents node {}", order, x));
        }
        pos[x] = i;
    }
    if order.len() != a.n {
        return Err(format!("order {:?} does not contain all {} nodes", order, a.n));
    }
    for &(x, y, _) in &a.edges {
        if pos[x] >= pos[y] {
            return Err(format!("edge {} -> {} points backwards in {:?}", x, y, order));
        }
    }
    Ok(())
}

fn on_cycle(a: &Abs, x: usize) -> bool {
    a.succ(x).iter().any(|&(y, _)| y == x || a.reach(y).contains(&x))
}

fn path_cost(a: &Abs, path: &[usize]) -> Result<f64, String> {
    let mut c = 0.0;
    for w in path.windows(2) {
        match a.min_weight(w[0], w[1]) {
            Some(x) => c += x,
            None => return Err(format!("path {:?} uses the non-edge {} -> {}", path, w[0], w[1])),
        }
    }
    Ok(c)
}

fn valid_forest(a: &Abs, edges: &[(usize, usize, f64)]) -> Result<(), String> {
    let mut parent: Vec<usize> = (0..a.n).collect();
    fn find(p: &mut Vec<usize>, x: usize) -> usize {
        let mut r = x;
        while p[r] != r {
            r = p[r];
        }
        p[x] = r;
        r
    }
    let mut pool: Vec<(usize, usize, f64)> = a.edges.iter().map(|&(x, y, w)| { let (p, q) = if x <= y { (x, y) } else { (y, x) }; (p, q, w) }).collect();
    for &(x, y, w) in edges {
        let (p, q) = if x <= y { (x, y) } else { (y, x) };
        match pool.iter().position(|e| e.0 == p && e.1 == q && e.2 == w) {
            Some(i) => {
                pool.swap_remove(i);
            }
            None => return Err(format!("spanning forest uses ({}, {}, {}) which is not an (unused) edge of the graph", x, y, w)),
        }
        let (rx, ry) = (find(&mut parent, x), find(&mut parent, y));
        if rx == ry {
            return Err(format!("spanning forest edge ({}, {}) closes a cycle", x, y));
        }
        parent[rx] = ry;
    }
    Ok(())
}

fn valid_matching(a: &Abs, mates: &[(usize, usize)]) -> Result<(), String> {
    let m: BTreeMap<usize, usize> = mates.iter().copied().collect();
    if m.len() != mates.len() {
        return Err(format!("a node is matched twice: {:?}", mates));
    }
    for (&x, &y) in &m {
        if m.get(&y) != Some(&x) {
            return Err(format!("mate is not symmetric at {} <-> {}: {:?}", x, y, mates));
        }
        if x == y || !(a.has_edge(x, y) || a.has_edge(y, x)) {
            return Err(format!("matched pair ({}, {}) is not joined by a non-loop edge", x, y));
        }
    }
    Ok(())
}

fn valid_flow(a: &Abs, s: usize, t: usize, value: f64, flows: &[(usize, usize, f64, f64)]) -> Result<(), String> {
    let mut balance = vec![0.0f64; a.n];
    for &(x, y, cap, f) in flows {
        if f < 0.0 || f > cap {
            return Err(format!("flow {} on edge {} -> {} violates capacity {}", f, x, y, cap));
        }
        balance[x] -= f;
        balance[y] += f;
    }
    for v in 0..a.n {
        if v != s && v != t && balance[v] != 0.0 {
            return Err(format!("flow is not conserved at node {} (net {})", v, balance[v]));
        }
    }
    if s != t && (balance[t] != value || balance[s] != -value) {
        return Err(format!("reported value {} but net flow out of the source is {} and into the sink {}", value, -balance[s], balance[t]));
    }
    Ok(())
}

fn acyclic_without(a: &Abs, removed: &[(usize, usize, f64)]) -> Result<(), String> {
    let mut pool = a.edges.clone();
    for r in removed {
        match pool.iter().position(|e| e.0 == r.0 && e.1 == r.1 && e.2 == r.2) {
            Some(i) => {
                pool.swap_remove(i);
            }
            None => return Err(format!("feedback arc ({}, {}, {}) is not an edge of the graph", r.0, r.1, r.2)),
        }
    }
    let rest = Abs { directed: true, n: a.n, edges: pool, simple: false };
    for v in 0..a.n {
        if on_cycle(&rest, v) {
            return Err(format!("a cycle through node {} remains after removing the feedback arc set", v));
        }
    }
    Ok(())
}

#[derive(Clone, Copy, Debug, PartialEq, Eq, PartialOrd, Ord)]
pub enum Algo {
    Dfs,
    Bfs,
    DfsPostOrder,
    Topo,
    Toposort,
    ToposortSpace,
    KosarajuScc,
    TarjanScc,
    TarjanSccReused,
    IsCyclicDirected,
    IsCyclicUndirected,
    HasPath,
    HasPathSpace,
    ConnectedComponents,
    Bipartite,
    Dominators,
    Dijkstra,
    DijkstraGoal,
    Astar,
    KShortest,
    BellmanFord,
    NegativeCycle,
    Spfa,
    FloydWarshall,
    Mst,
    MstPrim,
    GreedyMatching,
    MaximumMatching,
    FordFulkerson,
    ArticulationPoints,
    Dsatur,
    PageRank,
    MaximalCliques,
    FeedbackArcSet,
    SimplePaths,
    Graph6,
    DepthFirstSearch,
    DfsDefaultReset,
    DfsPostOrderDefaultReset,
    TopoDefaultReset,
    ToposortDefaultSpace,
    HasPathDefaultSpace,
    DfsMoveTo,
    FloydWarshallPath,
    SccAlias,
    TopoWithInitials,
    DfsReversed,
    BfsReversed,
    DfsNodeFiltered,
    DfsEdgeFiltered,
    DfsPrune,
    DfsBreak,
    DfsRecycledMap,
    DsaturOverUndirectedAdaptor,
    DijkstraOverUndirectedAdaptor,
}

pub const ALL_ALGOS: &[Algo] = &[
    Algo::Dfs,
    Algo::Bfs,
    Algo::DfsPostOrder,
    Algo::Topo,
    Algo::Toposort,
    Algo::ToposortSpace,
    Algo::KosarajuScc,
    Algo::TarjanScc,
    Algo::TarjanSccReused,
    Algo::IsCyclicDirected,
    Algo::IsCyclicUndirected,
    Algo::HasPath,
    Algo::HasPathSpace,
    Algo::ConnectedComponents,
    Algo::Bipartite,
    Algo::Dominators,
    Algo::Dijkstra,
    Algo::DijkstraGoal,
    Algo::Astar,
    Algo::KShortest,
    Algo::BellmanFord,
    Algo::NegativeCycle,
    Algo::Spfa,
    Algo::FloydWarshall,
    Algo::Mst,
    Algo::MstPrim,
    Algo::GreedyMatching,
    Algo::MaximumMatching,
    Algo::FordFulkerson,
    Algo::ArticulationPoints,
    Algo::Dsatur,
    Algo::PageRank,
    Algo::MaximalCliques,
    Algo::FeedbackArcSet,
    Algo::SimplePaths,
    Algo::Graph6,
    Algo::DepthFirstSearch,
    Algo::DfsDefaultReset,
    Algo::DfsPostOrderDefaultReset,
    Algo::TopoDefaultReset,
    Algo::ToposortDefaultSpace,
    Algo::HasPathDefaultSpace,
    Algo::DfsMoveTo,
    Algo::FloydWarshallPath,
    Algo::SccAlias,
    Algo::TopoWithInitials,
    Algo::DfsReversed,
    Algo::BfsReversed,
    Algo::DfsNodeFiltered,
    Algo::DfsEdgeFiltered,
    Algo::DfsPrune,
    Algo::DfsBreak,
    Algo::DfsRecycledMap,
    Algo::DsaturOverUndirectedAdaptor,
    Algo::DijkstraOverUndirectedAdaptor,
];

impl Algo {
    pub fn name(self) -> &'static str {
        match self {
            Algo::Dfs => "dfs",
            Algo::Bfs => "bfs",
            Algo::DfsPostOrder => "dfs_post_order",
            Algo::Topo => "topo_walker",
            Algo::Toposort => "toposort",
            Algo::ToposortSpace => "toposort_reused_space",
            Algo::KosarajuScc => "kosaraju_scc",
            Algo::TarjanScc => "tarjan_scc",
            Algo::TarjanSccReused => "tarjan_scc_reused",
            Algo::IsCyclicDirected => "is_cyclic_directed",
            Algo::IsCyclicUndirected => "is_cyclic_undirected",
            Algo::HasPath => "has_path_connecting",
            Algo::HasPathSpace => "has_path_connecting_reused_space",
            Algo::ConnectedComponents => "connected_components",
            Algo::Bipartite => "is_bipartite_undirected",
            Algo::Dominators => "dominators",
            Algo::Dijkstra => "dijkstra",
            Algo::DijkstraGoal => "dijkstra_goal",
            Algo::Astar => "astar",
            Algo::KShortest => "k_shortest_path",
            Algo::BellmanFord => "bellman_ford",
            Algo::NegativeCycle => "find_negative_cycle",
            Algo::Spfa => "spfa",
            Algo::FloydWarshall => "floyd_warshall",
            Algo::Mst => "min_spanning_tree",
            Algo::MstPrim => "min_spanning_tree_prim",
            Algo::GreedyMatching => "greedy_matching",
            Algo::MaximumMatching => "maximum_matching",
            Algo::FordFulkerson => "ford_fulkerson",
            Algo::ArticulationPoints => "articulation_points",
            Algo::Dsatur => "dsatur_coloring",
            Algo::PageRank => "page_rank",
            Algo::MaximalCliques => "maximal_cliques",
            Algo::FeedbackArcSet => "greedy_feedback_arc_set",
            Algo::SimplePaths => "all_simple_paths",
            Algo::Graph6 => "graph6_string",
            Algo::DepthFirstSearch => "depth_first_search",
            Algo::DfsDefaultReset => "dfs_default_then_reset",
            Algo::DfsPostOrderDefaultReset => "dfs_post_order_default_then_reset",
            Algo::TopoDefaultReset => "topo_default_then_reset",
            Algo::ToposortDefaultSpace => "toposort_default_space",
            Algo::HasPathDefaultSpace => "has_path_connecting_default_space",
            Algo::DfsMoveTo => "dfs_move_to_second_start",
            Algo::FloydWarshallPath => "floyd_warshall_path",
            Algo::SccAlias => "scc",
            Algo::TopoWithInitials => "topo_with_initials",
            Algo::DfsReversed => "dfs_over_reversed",
            Algo::BfsReversed => "bfs_over_reversed",
            Algo::DfsNodeFiltered => "dfs_over_node_filtered",
            Algo::DfsEdgeFiltered => "dfs_over_edge_filtered",
            Algo::DfsPrune => "depth_first_search_prune",
            Algo::DfsBreak => "depth_first_search_break",
            Algo::DfsRecycledMap => "dfs_reset_onto_recycled_map",
            Algo::DsaturOverUndirectedAdaptor => "dsatur_coloring_over_undirected_adaptor",
            Algo::DijkstraOverUndirectedAdaptor => "dijkstra_over_undirected_adaptor",
        }
    }
    /// Is the algorithm in its documented domain on this abstract graph?
    fn applicable(self, a: &Abs) -> bool {
        let neg = a.has_negative();
        match self {
            Algo::Dijkstra | Algo::DijkstraGoal | Algo::Astar | Algo::KShortest | Algo::FordFulkerson => !neg,
            Algo::DijkstraOverUndirectedAdaptor => !neg && a.directed,
            Algo::DsaturOverUndirectedAdaptor => a.directed,
            Algo::BellmanFord | Algo::NegativeCycle | Algo::Spfa | Algo::FloydWarshall | Algo::FloydWarshallPath => true,
            Algo::Topo | Algo::TopoDefaultReset | Algo::ToposortDefaultSpace | Algo::Toposort | Algo::ToposortSpace | Algo::IsCyclicDirected | Algo::Dominators | Algo::FeedbackArcSet | Algo::KosarajuScc | Algo::TarjanScc | Algo::TarjanSccReused | Algo::SccAlias | Algo::TopoWithInitials | Algo::DfsReversed | Algo::BfsReversed | Algo::DfsPrune => a.directed,
            Algo::IsCyclicUndirected | Algo::Bipartite | Algo::ArticulationPoints | Algo::MaximalCliques | Algo::Dsatur | Algo::MstPrim | Algo::Graph6 => !a.directed,
            Algo::SimplePaths => a.simple && a.directed,
            Algo::PageRank => a.directed,
            _ => true,
        }
    }
}

#[derive(Clone, Debug, Serialize, Deserialize)]
pub struct Params {
    pub s: usize,
    pub t: usize,
    pub k: usize,
}

/// Compare the answer of a replica with the reference replica's. If the reference's own
/// answer does not pass the validators either, the algorithm is wrong on every encoding
/// alike: that is the business of the per-algorithm properties, not of C07.
fn judge(algo: Algo, a: &Abs, p: &Params, r0: &Res, ri: &Res) -> Result<(), String> {
    match judge_inner(algo, a, p, r0, ri) {
        Ok(()) => Ok(()),
        Err(e) => {
            if !matches!(ri, Res::Panic(_)) && !matches!(r0, Res::Panic(_)) && judge_inner(algo, a, p, r0, r0).is_err() {
                Ok(())
            } else {
                Err(e)
            }
        }
    }
}

fn judge_inner(algo: Algo, a: &Abs, p: &Params, r0: &Res, ri: &Res) -> Result<(), String> {
    if *ri == Res::NA || *r0 == Res::NA {
        return Ok(());
    }
    match (r0, ri) {
        (Res::Panic(_), Res::Panic(_)) => return Ok(()),
        (Res::Panic(m), _) => return Err(format!("reference Graph panicked ({}) but this encoding returned {:?}", m, brief(ri))),
        (_, Res::Panic(m)) => return Err(format!("panicked ({}) where the reference Graph returned {:?}", m, brief(r0))),
        _ => {}
    }
    let eq = |what: &str| -> Result<(), String> {
        if r0 == ri {
            Ok(())
        } else {
            Err(format!("{} differs: reference Graph {:?}, this encoding {:?}", what, brief(r0), brief(ri)))
        }
    };
    match algo {
        Algo::Dfs | Algo::Bfs | Algo::DfsPostOrder | Algo::DepthFirstSearch | Algo::DfsDefaultReset | Algo::DfsPostOrderDefaultReset | Algo::DfsMoveTo | Algo::DfsReversed | Algo::BfsReversed | Algo::DfsNodeFiltered | Algo::DfsEdgeFiltered | Algo::DfsRecycledMap => eq("visited set"),
        Algo::DfsPrune => eq("discovered set / number of edge events"),
        Algo::DfsBreak => eq("break value"),
        Algo::Topo | Algo::TopoDefaultReset | Algo::TopoWithInitials | Algo::Toposort | Algo::ToposortSpace | Algo::ToposortDefaultSpace => match (r0, ri) {
            (Res::Seq(o0), Res::Seq(oi)) => {
                let walker = algo == Algo::Topo || algo == Algo::TopoDefaultReset || algo == Algo::TopoWithInitials;
                if is_topo_order(a, o0).is_err() && !walker {
                    return Ok(()); // reference itself invalid: not this property's business
                }
                if walker {
                    // Topo emits the nodes not on or downstream of a cycle: same set, valid order among them
                    let (s0, si): (BTreeSet<usize>, BTreeSet<usize>) = (o0.iter().copied().collect(), oi.iter().copied().collect());
                    if s0 != si {
                        return Err(format!("Topo emitted {:?}, reference Graph emitted {:?}", oi, o0));
                    }
                    let mut pos = BTreeMap::new();
                    for (i, &x) in oi.iter().enumerate() {
                        pos.insert(x, i);
                    }
                    for &(x, y, _) in &a.edges {
                        if let (Some(px), Some(py)) = (pos.get(&x), pos.get(&y)) {
                            if px >= py {
                                return Err(format!("Topo order {:?} violates edge {} -> {}", oi, x, y));
                            }
                        }
                    }
                    Ok(())
                } else {
                    is_topo_order(a, oi)
                }
            }
            (Res::Failed(_), Res::Failed(n)) => {
                let node: usize = n.parse().unwrap_or(usize::MAX);
                if node < a.n && on_cycle(a, node) {
                    Ok(())
                } else {
                    Err(format!("Cycle error names node {} which is not on a cycle", n))
                }
            }
            _ => Err(format!("reference Graph returned {:?}, this encoding {:?}", brief(r0), brief(ri))),
        },
        Algo::KosarajuScc | Algo::TarjanScc | Algo::TarjanSccReused | Algo::SccAlias => match (r0, ri) {
            (Res::Components(c0), Res::Components(ci)) => {
                let (p0, pi): (BTreeSet<_>, BTreeSet<_>) = (c0.iter().cloned().collect(), ci.iter().cloned().collect());
                if p0 != pi {
                    return Err(format!("partition differs: reference {:?}, this encoding {:?}", c0, ci));
                }
                // no component may reach a later one
                for i in 0..ci.len() {
                    let x = *ci[i].iter().next().unwrap();
                    let r = a.reach(x);
                    for later in ci.iter().skip(i + 1) {
                        if later.iter().any(|y| r.contains(y)) {
                            return Err(format!("component {:?} can reach the later component {:?} in {:?}", ci[i], later, ci));
                        }
                    }
                }
                Ok(())
            }
            _ => eq("result"),
        },
        Algo::IsCyclicDirected | Algo::IsCyclicUndirected | Algo::HasPath | Algo::HasPathSpace | Algo::HasPathDefaultSpace | Algo::ConnectedComponents | Algo::Bipartite => eq("verdict"),
        Algo::Dominators => eq("immediate dominator map"),
        Algo::Dijkstra | Algo::KShortest | Algo::FloydWarshall | Algo::DijkstraGoal | Algo::DijkstraOverUndirectedAdaptor => eq("distance map"),
        Algo::FloydWarshallPath => match (r0, ri) {
            (Res::Tree(d0, _), Res::Tree(di, pred)) => {
                if d0 != di {
                    return Err(format!("distances differ: reference {:?}, this encoding {:?}", d0, di));
                }
                // `pred` carries, per ordered pair packed as s * n + t, the penultimate node
                let n = a.n.max(1);
                let dist: BTreeMap<usize, f64> = di.iter().copied().collect();
                for &(st, pr) in pred {
                    let (s_, t_) = (st / n, st % n);
                    let d_st = dist[&st];
                    match pr {
                        None => {
                            if d_st != f64::INFINITY {
                                return Err(format!("no predecessor recorded for the connected pair {} -> {} (distance {})", s_, t_, d_st));
                            }
                        }
                        Some(u) => {
                            if s_ == t_ {
                                if u != s_ {
                                    return Err(format!("prev[{}][{}] = {}, documented to be the node itself", s_, s_, u));
                                }
                                continue;
                            }
                            if d_st == f64::INFINITY {
                                return Err(format!("predecessor {} recorded for the unconnected pair {} -> {}", u, s_, t_));
                            }
                            let w = a.min_weight(u, t_).ok_or_else(|| format!("prev[{}][{}] = {} but {} -> {} is not an edge", s_, t_, u, u, t_))?;
                            if dist[&(s_ * n + u)] + w != d_st {
                                return Err(format!("prev[{}][{}] = {}: {} + {} != {}", s_, t_, u, dist[&(s_ * n + u)], w, d_st));
                            }
                        }
                    }
                }
                Ok(())
            }
            (Res::Failed(_), Res::Failed(_)) => Ok(()),
            _ => Err(format!("reference Graph returned {:?}, this encoding {:?}", brief(r0), brief(ri))),
        },
        Algo::Astar => match (r0, ri) {
            (Res::Edges(c0, _), Res::Edges(ci, path)) => {
                if c0 != ci {
                    return Err(format!("cost {} vs reference {}", ci, c0));
                }
                let nodes: Vec<usize> = path.iter().map(|e| e.0).collect();
                let pc = path_cost(a, &nodes)?;
                if nodes.first() != Some(&p.s) || nodes.last() != Some(&p.t) {
                    return Err(format!("path {:?} does not run from {} to {}", nodes, p.s, p.t));
                }
                if pc > *ci {
                    return Err(format!("path {:?} costs at least {} but {} was reported", nodes, pc, ci));
                }
                Ok(())
            }
            _ => eq("result"),
        },
        Algo::BellmanFord | Algo::Spfa => match (r0, ri) {
            (Res::Tree(d0, _), Res::Tree(di, pred)) => {
                if d0 != di {
                    return Err(format!("distances differ: reference {:?}, this encoding {:?}", d0, di));
                }
                // predecessors must spell out shortest paths
                let dist: BTreeMap<usize, f64> = di.iter().copied().collect();
                for &(v, pr) in pred {
                    if let Some(u) = pr {
                        let w = a.min_weight(u, v).ok_or_else(|| format!("predecessor {} of {} is not joined to it", u, v))?;
                        if dist[&u] + w != dist[&v] {
                            return Err(format!("predecessor {} of {}: {} + {} != {}", u, v, dist[&u], w, dist[&v]));
                        }
                    }
                }
                Ok(())
            }
            (Res::Failed(_), Res::Failed(_)) => Ok(()),
            _ => Err(format!("reference Graph returned {:?}, this encoding {:?}", brief(r0), brief(ri))),
        },
        Algo::NegativeCycle => match (r0, ri) {
            (Res::Seq(_), Res::Seq(c)) => {
                let mut cost = 0.0;
                if c.len() == 1 && c[0] == p.s && a.min_weight(p.s, p.s).map_or(true, |w| w >= 0.0) {
                    return Err(format!("[bogus-source-cycle] the reported 'cycle' is just the source node {:?}", c));
                }
                for i in 0..c.len() {
                    let (u, v) = (c[i], c[(i + 1) % c.len()]);
                    cost += a.min_weight(u, v).ok_or_else(|| format!("cycle {:?} uses the non-edge {} -> {}", c, u, v))?;
                }
                if c.is_empty() || cost >= 0.0 {
                    return Err(format!("reported cycle {:?} has cost at least {} (not negative)", c, cost));
                }
                Ok(())
            }
            (Res::Failed(_), Res::Failed(_)) => Ok(()),
            _ => Err(format!("reference Graph returned {:?}, this encoding {:?}", brief(r0), brief(ri))),
        },
        Algo::Mst | Algo::MstPrim => match (r0, ri) {
            (Res::Edges(w0, e0), Res::Edges(wi, ei)) => {
                valid_forest(a, ei)?;
                if w0 != wi || e0.len() != ei.len() {
                    return Err(format!("forest weight {} / {} edges vs reference {} / {} edges", wi, ei.len(), w0, e0.len()));
                }
                Ok(())
            }
            _ => eq("result"),
        },
        Algo::GreedyMatching | Algo::MaximumMatching => match (r0, ri) {
            (Res::LabelMap(m0), Res::LabelMap(mi)) => {
                valid_matching(a, mi)?;
                if algo == Algo::MaximumMatching && m0.len() != mi.len() {
                    return Err(format!("matching size {} vs reference {}", mi.len() / 2, m0.len() / 2));
                }
                Ok(())
            }
            _ => eq("result"),
        },
        Algo::FordFulkerson => match (r0, ri) {
            (Res::Flow(v0, _), Res::Flow(vi, fi)) => {
                valid_flow(a, p.s, p.t, *vi, fi)?;
                if v0 != vi {
                    return Err(format!("max flow {} vs reference {}", vi, v0));
                }
                Ok(())
            }
            _ => eq("result"),
        },
        Algo::ArticulationPoints => eq("articulation point set"),
        Algo::Dsatur | Algo::DsaturOverUndirectedAdaptor => match ri {
            Res::LabelMap(col) => {
                let c: BTreeMap<usize, usize> = col.iter().copied().collect();
                if c.len() != a.n {
                    return Err(format!("colouring covers {} of {} nodes", c.len(), a.n));
                }
                for &(x, y, _) in &a.edges {
                    if x != y && c[&x] == c[&y] {
                        return Err(format!("adjacent nodes {} and {} share colour {}", x, y, c[&x]));
                    }
                }
                Ok(())
            }
            _ => eq("result"),
        },
        Algo::PageRank => match (r0, ri) {
            (Res::Floats(f0), Res::Floats(fi)) => {
                if f0.len() != fi.len() {
                    return Err(format!("{} ranks vs reference {}", fi.len(), f0.len()));
                }
                for (x, y) in f0.iter().zip(fi.iter()) {
                    if x.0 != y.0 || (x.1 - y.1).abs() > 1e-9 {
                        return Err(format!("rank of node {} is {} vs reference {}", y.0, y.1, x.1));
                    }
                }
                Ok(())
            }
            _ => eq("result"),
        },
        Algo::MaximalCliques => eq("clique set"),
        Algo::FeedbackArcSet => match ri {
            Res::Edges(_, arcs) => acyclic_without(a, arcs),
            _ => eq("result"),
        },
        Algo::SimplePaths => eq("set of simple paths"),
        Algo::Graph6 => eq("decoded adjacency"),
    }
}

fn brief(r: &Res) -> String {
    let s = format!("{:?}", r);
    if s.len() > 400 {
        format!("{}...", &s[..400])
    } else {
        s
    }
}

// ---------------------------------------------------------------------------------------
// the algorithm suite, duck-typed over the replica expression
// ---------------------------------------------------------------------------------------

/// `$g` : the graph reference (Copy), `$id` : label -> NodeId, `$lb` : NodeId -> label,
/// `$a` : &Abs, `$p` : &Params, `$n_ids`: all NodeIds.
macro_rules! run_algo {
    ($algo:expr, $g:expr, $id:expr, $lb:expr, $a:expr, $p:expr; $($feat:ident),*) => {{
        #[allow(unreachable_patterns)]
        let r: Res = match $algo {
            $( Algo::$feat => run_algo!(@ $feat, $g, $id, $lb, $a, $p), )*
            _ => Res::NA,
        };
        r
    }};
    (@ Dfs, $g:expr, $id:expr, $lb:expr, $a:expr, $p:expr) => {{
        let mut seen = BTreeSet::new();
        let mut dfs = Dfs::new($g, $id($p.s));
        let mut dup = false;
        while let Some(x) = dfs.next($g) { if !seen.insert($lb(x)) { dup = true; } }
        if dup { Res::Failed("a node was emitted twice".into()) } else { Res::Set(seen) }
    }};
    (@ Bfs, $g:expr, $id:expr, $lb:expr, $a:expr, $p:expr) => {{
        let mut seen = BTreeSet::new();
        let mut bfs = Bfs::new($g, $id($p.s));
        let mut dup = false;
        while let Some(x) = bfs.next($g) { if !seen.insert($lb(x)) { dup = true; } }
        if dup { Res::Failed("a node was emitted twice".into()) } else { Res::Set(seen) }
    }};
    (@ DfsPostOrder, $g:expr, $id:expr, $lb:expr, $a:expr, $p:expr) => {{
        let mut seen = BTreeSet::new();
        let mut w = DfsPostOrder::new($g, $id($p.s));
        let mut dup = false;
        while let Some(x) = w.next($g) { if !seen.insert($lb(x)) { dup = true; } }
        if dup { Res::Failed("a node was emitted twice".into()) } else { Res::Set(seen) }
    }};
    (@ DepthFirstSearch, $g:expr, $id:expr, $lb:expr, $a:expr, $p:expr) => {{
        use petgraph::visit::{depth_first_search, DfsEvent, Control};
        let mut seen = BTreeSet::new();
        let mut finished = 0usize;
        depth_first_search($g, Some($id($p.s)), |ev| {
            match ev {
                DfsEvent::Discover(n, _) => { seen.insert($lb(n)); }
                DfsEvent::Finish(_, _) => { finished += 1; }
                _ => {}
            }
            Control::<()>::Continue
        });
        if finished != seen.len() { Res::Failed(format!("{} Discover but {} Finish events", seen.len(), finished)) } else { Res::Set(seen) }
    }};
    (@ DfsDefaultReset, $g:expr, $id:expr, $lb:expr, $a:expr, $p:expr) => {{
        // a walker that was not created from this graph: reset() must size its map for it
        let mut seen = BTreeSet::new();
        let mut dfs = Dfs::default();
        dfs.reset($g);
        dfs.move_to($id($p.s));
        let mut dup = false;
        while let Some(x) = dfs.next($g) { if !seen.insert($lb(x)) { dup = true; } }
        if dup { Res::Failed("a node was emitted twice".into()) } else { Res::Set(seen) }
    }};
    (@ DfsPostOrderDefaultReset, $g:expr, $id:expr, $lb:expr, $a:expr, $p:expr) => {{
        let mut seen = BTreeSet::new();
        let mut w = DfsPostOrder::default();
        w.reset($g);
        w.move_to($id($p.s));
        let mut dup = false;
        while let Some(x) = w.next($g) { if !seen.insert($lb(x)) { dup = true; } }
        if dup { Res::Failed("a node was emitted twice".into()) } else { Res::Set(seen) }
    }};
    (@ DfsMoveTo, $g:expr, $id:expr, $lb:expr, $a:expr, $p:expr) => {{
        // continue a finished walk from a second start: the union of both reachable sets
        let mut seen = BTreeSet::new();
        let mut dfs = Dfs::new($g, $id($p.s));
        let mut dup = false;
        while let Some(x) = dfs.next($g) { if !seen.insert($lb(x)) { dup = true; } }
        dfs.move_to($id($p.t));
        while let Some(x) = dfs.next($g) { if !seen.insert($lb(x)) { dup = true; } }
        if dup { Res::Failed("a node was emitted twice".into()) } else { Res::Set(seen) }
    }};
    (@ TopoDefaultReset, $g:expr, $id:expr, $lb:expr, $a:expr, $p:expr) => {{
        let mut t = Topo::default();
        t.reset($g);
        let mut order = Vec::new();
        while let Some(x) = t.next($g) { order.push($lb(x)); if order.len() > 10_000 { break; } }
        Res::Seq(order)
    }};
    (@ ToposortDefaultSpace, $g:expr, $id:expr, $lb:expr, $a:expr, $p:expr) => {{
        let mut space = algo::DfsSpace::default();
        match algo::toposort($g, Some(&mut space)) {
            Ok(o) => Res::Seq(o.into_iter().map(|x| $lb(x)).collect()),
            Err(c) => Res::Failed(format!("{}", $lb(c.node_id()))),
        }
    }};
    (@ HasPathDefaultSpace, $g:expr, $id:expr, $lb:expr, $a:expr, $p:expr) => {{
        let mut space = algo::DfsSpace::default();
        Res::Bool(algo::has_path_connecting($g, $id($p.s), $id($p.t), Some(&mut space)))
    }};
    (@ FloydWarshallPath, $g:expr, $id:expr, $lb:expr, $a:expr, $p:expr) => {{
        use petgraph::visit::NodeIndexable;
        match algo::floyd_warshall::floyd_warshall_path($g, |e| *e.weight()) {
            Err(_) => Res::Failed("NegativeCycle".into()),
            Ok((m, prev)) => {
                let n = $a.n.max(1);
                let mut d: Vec<(usize, f64)> = m.into_iter().map(|((x, y), c)| ($lb(x) * n + $lb(y), c)).collect();
                d.sort_by(|x, y| x.0.cmp(&y.0));
                let mut pr = Vec::new();
                for s_ in 0..$a.n {
                    for t_ in 0..$a.n {
                        let (i, j) = (NodeIndexable::to_index(&$g, $id(s_)), NodeIndexable::to_index(&$g, $id(t_)));
                        pr.push((s_ * n + t_, prev[i][j].map(|k| $lb(NodeIndexable::from_index(&$g, k)))));
                    }
                }
                Res::Tree(d, pr)
            }
        }
    }};
    (@ SccAlias, $g:expr, $id:expr, $lb:expr, $a:expr, $p:expr) => {{
        #[allow(deprecated)]
        let c = algo::scc($g);
        Res::Components(c.into_iter().map(|c| c.into_iter().map(|x| $lb(x)).collect()).collect())
    }};
    (@ TopoWithInitials, $g:expr, $id:expr, $lb:expr, $a:expr, $p:expr) => {{
        let initials: Vec<_> = (0..$a.n).filter(|l| l % 2 == $p.k % 2 || *l == $p.s).map(|l| $id(l)).collect();
        let mut t = Topo::with_initials($g, initials);
        let mut order = Vec::new();
        while let Some(x) = t.next($g) { order.push($lb(x)); if order.len() > 10_000 { break; } }
        Res::Seq(order)
    }};
    (@ DfsReversed, $g:expr, $id:expr, $lb:expr, $a:expr, $p:expr) => {{
        use petgraph::visit::Reversed;
        let mut seen = BTreeSet::new();
        let r = Reversed($g);
        let mut dfs = Dfs::new(r, $id($p.s));
        let mut dup = false;
        while let Some(x) = dfs.next(r) { if !seen.insert($lb(x)) { dup = true; } }
        if dup { Res::Failed("a node was emitted twice".into()) } else { Res::Set(seen) }
    }};
    (@ BfsReversed, $g:expr, $id:expr, $lb:expr, $a:expr, $p:expr) => {{
        use petgraph::visit::Reversed;
        let mut seen = BTreeSet::new();
        let r = Reversed($g);
        let mut bfs = Bfs::new(r, $id($p.s));
        let mut dup = false;
        while let Some(x) = bfs.next(r) { if !seen.insert($lb(x)) { dup = true; } }
        if dup { Res::Failed("a node was emitted twice".into()) } else { Res::Set(seen) }
    }};
    (@ DfsNodeFiltered, $g:expr, $id:expr, $lb:expr, $a:expr, $p:expr) => {{
        use petgraph::visit::NodeFiltered;
        let (s_, k_) = ($p.s, $p.k);
        let nf = NodeFiltered::from_fn($g, |n| { let l = $lb(n); l == s_ || l % 3 != k_ % 3 });
        let mut seen = BTreeSet::new();
        let mut dfs = Dfs::new(&nf, $id($p.s));
        let mut dup = false;
        while let Some(x) = dfs.next(&nf) { if !seen.insert($lb(x)) { dup = true; } }
        if dup { Res::Failed("a node was emitted twice".into()) } else { Res::Set(seen) }
    }};
    (@ DfsEdgeFiltered, $g:expr, $id:expr, $lb:expr, $a:expr, $p:expr) => {{
        use petgraph::visit::EdgeFiltered;
        let k_ = $p.k as f64;
        let ef = EdgeFiltered::from_fn($g, |e| *e.weight() != k_ && *e.weight() != k_ + 1.0);
        let mut seen = BTreeSet::new();
        let mut dfs = Dfs::new(&ef, $id($p.s));
        let mut dup = false;
        while let Some(x) = dfs.next(&ef) { if !seen.insert($lb(x)) { dup = true; } }
        if dup { Res::Failed("a node was emitted twice".into()) } else { Res::Set(seen) }
    }};
    (@ DfsPrune, $g:expr, $id:expr, $lb:expr, $a:expr, $p:expr) => {{
        // prune at t: nothing beyond t is explored through t; every out-edge of a discovered,
        // unpruned node is reported exactly once
        use petgraph::visit::{depth_first_search, DfsEvent, Control};
        let mut seen = BTreeSet::new();
        let (mut finished, mut edge_events) = (0usize, 0usize);
        let t_ = $p.t;
        depth_first_search($g, Some($id($p.s)), |ev| {
            match ev {
                DfsEvent::Discover(n, _) => { seen.insert($lb(n)); if $lb(n) == t_ { return Control::<()>::Prune; } }
                DfsEvent::Finish(_, _) => { finished += 1; }
                DfsEvent::TreeEdge(..) | DfsEvent::BackEdge(..) | DfsEvent::CrossForwardEdge(..) => { edge_events += 1; }
            }
            Control::Continue
        });
        if finished != seen.len() { Res::Failed(format!("{} Discover but {} Finish events", seen.len(), finished)) } else { Res::Text(format!("{:?} {}", seen, edge_events)) }
    }};
    (@ DfsBreak, $g:expr, $id:expr, $lb:expr, $a:expr, $p:expr) => {{
        use petgraph::visit::{depth_first_search, DfsEvent, Control};
        let t_ = $p.t;
        let r = depth_first_search($g, Some($id($p.s)), |ev| {
            if let DfsEvent::Discover(n, _) = ev { if $lb(n) == t_ { return Control::Break($lb(n)); } }
            Control::Continue
        });
        let unit = depth_first_search($g, Some($id($p.s)), |ev| {
            if let DfsEvent::Discover(n, _) = ev { if $lb(n) == t_ { return Control::<()>::breaking(); } }
            Control::Continue
        });
        match (r.break_value(), unit.break_value()) {
            (Some(v), Some(())) => Res::Num(v as i64),
            (None, None) => Res::Num(-1),
            (x, y) => Res::Failed(format!("Break(value) run gives {:?}, breaking() run gives {:?}", x, y)),
        }
    }};
    (@ DfsRecycledMap, $g:expr, $id:expr, $lb:expr, $a:expr, $p:expr) => {{
        // a walker whose visit map is older than the graph: as large as the number of nodes
        // (which lies between node_count and node_bound when there are vacant indices), one
        // less, and a single dirty bit -- `reset` must make each of them fit this graph
        use petgraph::visit::NodeCount;
        let k = NodeCount::node_count(&$g);
        let mut results: Vec<BTreeSet<usize>> = Vec::new();
        let mut dup = false;
        for len in [k, k.saturating_sub(1), 1usize] {
            let mut map = fixedbitset::FixedBitSet::with_capacity(len);
            if len > 0 { map.insert(0); }
            let mut dfs = Dfs::from_parts(Vec::new(), map);
            dfs.reset($g);
            dfs.move_to($id($p.s));
            let mut seen = BTreeSet::new();
            while let Some(x) = dfs.next($g) { if !seen.insert($lb(x)) { dup = true; } }
            results.push(seen);
        }
        if dup { Res::Failed("a node was emitted twice".into()) }
        else if results[0] != results[1] || results[0] != results[2] { Res::Failed(format!("the walk depends on the size of the recycled map: {:?}", results)) }
        else { Res::Set(results.swap_remove(0)) }
    }};
    (@ DsaturOverUndirectedAdaptor, $g:expr, $id:expr, $lb:expr, $a:expr, $p:expr) => {{
        // an adaptor is a graph type like any other: the symmetrised view of a directed replica
        let ua = petgraph::visit::UndirectedAdaptor($g);
        let (m, k) = algo::dsatur_coloring(ua);
        let v: Vec<(usize, usize)> = { let mut v: Vec<(usize, usize)> = m.into_iter().map(|(n, c)| ($lb(n), c)).collect(); v.sort(); v };
        if v.iter().any(|x| x.1 >= k.max(1)) { Res::Failed(format!("colour out of range 0..{}", k)) } else { Res::LabelMap(v) }
    }};
    (@ DijkstraOverUndirectedAdaptor, $g:expr, $id:expr, $lb:expr, $a:expr, $p:expr) => {{
        let ua = petgraph::visit::UndirectedAdaptor($g);
        let m = algo::dijkstra(ua, $id($p.s), None, |e| *e.weight());
        let mut v: Vec<(usize, f64)> = m.into_iter().map(|(k, c)| ($lb(k), c)).collect();
        v.sort_by(|x, y| x.0.cmp(&y.0));
        Res::Map(v)
    }};
    (@ Topo, $g:expr, $id:expr, $lb:expr, $a:expr, $p:expr) => {{
        let order: Vec<usize> = Topo::new($g).iter($g).map(|x| $lb(x)).collect();
        Res::Seq(order)
    }};
    (@ Toposort, $g:expr, $id:expr, $lb:expr, $a:expr, $p:expr) => {{
        match algo::toposort($g, None) {
            Ok(o) => Res::Seq(o.into_iter().map(|x| $lb(x)).collect()),
            Err(c) => Res::Failed(format!("{}", $lb(c.node_id()))),
        }
    }};
    (@ ToposortSpace, $g:expr, $id:expr, $lb:expr, $a:expr, $p:expr) => {{
        // a workspace that has already been used for another query on the same graph
        let mut space = algo::DfsSpace::new($g);
        let _ = algo::has_path_connecting($g, $id($p.s), $id($p.t), Some(&mut space));
        match algo::toposort($g, Some(&mut space)) {
            Ok(o) => Res::Seq(o.into_iter().map(|x| $lb(x)).collect()),
            Err(c) => Res::Failed(format!("{}", $lb(c.node_id()))),
        }
    }};
    (@ KosarajuScc, $g:expr, $id:expr, $lb:expr, $a:expr, $p:expr) => {{
        Res::Components(algo::kosaraju_scc($g).into_iter().map(|c| c.into_iter().map(|x| $lb(x)).collect()).collect())
    }};
    (@ TarjanScc, $g:expr, $id:expr, $lb:expr, $a:expr, $p:expr) => {{
        Res::Components(algo::tarjan_scc($g).into_iter().map(|c| c.into_iter().map(|x| $lb(x)).collect()).collect())
    }};
    (@ TarjanSccReused, $g:expr, $id:expr, $lb:expr, $a:expr, $p:expr) => {{
        let mut t = algo::TarjanScc::new();
        let mut first = Vec::new();
        t.run($g, |c| first.push(c.len()));
        let mut out: Vec<BTreeSet<usize>> = Vec::new();
        t.run($g, |c| out.push(c.iter().map(|&x| $lb(x)).collect()));
        // node_component_index must be consistent with the reported partition
        let mut bad = None;
        for (ci, comp) in out.iter().enumerate() {
            for &l in comp {
                let idx = t.node_component_index($g, $id(l));
                let first_idx = t.node_component_index($g, $id(*comp.iter().next().unwrap()));
                if idx != first_idx { bad = Some((ci, l)); }
            }
        }
        match bad { Some((ci, l)) => Res::Failed(format!("node_component_index of {} disagrees inside component #{}", l, ci)), None => Res::Components(out) }
    }};
    (@ IsCyclicDirected, $g:expr, $id:expr, $lb:expr, $a:expr, $p:expr) => {{ Res::Bool(algo::is_cyclic_directed($g)) }};
    (@ IsCyclicUndirected, $g:expr, $id:expr, $lb:expr, $a:expr, $p:expr) => {{ Res::Bool(algo::is_cyclic_undirected($g)) }};
    (@ HasPath, $g:expr, $id:expr, $lb:expr, $a:expr, $p:expr) => {{ Res::Bool(algo::has_path_connecting($g, $id($p.s), $id($p.t), None)) }};
    (@ HasPathSpace, $g:expr, $id:expr, $lb:expr, $a:expr, $p:expr) => {{
        let mut space = algo::DfsSpace::new($g);
        let _ = algo::has_path_connecting($g, $id($p.t), $id($p.s), Some(&mut space));
        Res::Bool(algo::has_path_connecting($g, $id($p.s), $id($p.t), Some(&mut space)))
    }};
    (@ ConnectedComponents, $g:expr, $id:expr, $lb:expr, $a:expr, $p:expr) => {{ Res::Num(algo::connected_components($g) as i64) }};
    (@ Bipartite, $g:expr, $id:expr, $lb:expr, $a:expr, $p:expr) => {{ Res::Bool(algo::is_bipartite_undirected($g, $id($p.s))) }};
    (@ Dominators, $g:expr, $id:expr, $lb:expr, $a:expr, $p:expr) => {{
        let d = algo::dominators::simple_fast($g, $id($p.s));
        let mut v = Vec::new();
        for l in 0..$a.n {
            if let Some(i) = d.immediate_dominator($id(l)) { v.push((l, $lb(i))); }
        }
        // the three iterators must spell out the same tree as immediate_dominator()
        let idom: BTreeMap<usize, usize> = v.iter().copied().collect();
        let mut bad: Option<String> = None;
        for l in 0..$a.n {
            let reachable = l == $p.s || idom.contains_key(&l);
            let mut chain = vec![l];
            let mut cur = l;
            while let Some(&u) = idom.get(&cur) { if u == cur || chain.len() > $a.n { break; } chain.push(u); cur = u; }
            let doms: Option<Vec<usize>> = d.dominators($id(l)).map(|it| it.map(|x| $lb(x)).collect());
            let sdoms: Option<Vec<usize>> = d.strict_dominators($id(l)).map(|it| it.map(|x| $lb(x)).collect());
            if reachable {
                if doms.as_ref() != Some(&chain) { bad = Some(format!("dominators({}) = {:?}, the immediate-dominator chain is {:?}", l, doms, chain)); }
                if sdoms.as_deref() != Some(&chain[1..]) { bad = Some(format!("strict_dominators({}) = {:?}, the immediate-dominator chain is {:?}", l, sdoms, &chain[1..])); }
            } else if doms.is_some() || sdoms.is_some() {
                bad = Some(format!("dominators({}) = {:?} / strict {:?} for a node the root does not reach", l, doms, sdoms));
            }
            let mut kids: Vec<usize> = d.immediately_dominated_by($id(l)).map(|x| $lb(x)).collect();
            kids.sort();
            let exp: Vec<usize> = idom.iter().filter(|(&c, &u)| u == l && c != l).map(|(&c, _)| c).collect();
            if kids != exp { bad = Some(format!("immediately_dominated_by({}) = {:?}, immediate_dominator() says {:?}", l, kids, exp)); }
        }
        if let Some(b) = bad { Res::Failed(b) } else
        if $lb(d.root()) != $p.s { Res::Failed("root() is not the requested root".into()) } else { Res::LabelMap(v) }
    }};
    (@ Dijkstra, $g:expr, $id:expr, $lb:expr, $a:expr, $p:expr) => {{
        let m = algo::dijkstra($g, $id($p.s), None, |e| *e.weight());
        let mut v: Vec<(usize, f64)> = m.into_iter().map(|(k, c)| ($lb(k), c)).collect();
        v.sort_by(|x, y| x.0.cmp(&y.0));
        Res::Map(v)
    }};
    (@ DijkstraGoal, $g:expr, $id:expr, $lb:expr, $a:expr, $p:expr) => {{
        let m = algo::dijkstra($g, $id($p.s), Some($id($p.t)), |e| *e.weight());
        // only the goal's entry is specified exactly
        Res::Map(m.into_iter().filter(|(k, _)| $lb(*k) == $p.t).map(|(k, c)| ($lb(k), c)).collect())
    }};
    (@ Astar, $g:expr, $id:expr, $lb:expr, $a:expr, $p:expr) => {{
        let goal = $id($p.t);
        match algo::astar($g, $id($p.s), |n| n == goal, |e| *e.weight(), |_| 0.0f64) {
            None => Res::Failed("unreachable".into()),
            Some((c, path)) => Res::Edges(c, path.into_iter().map(|x| ($lb(x), 0, 0.0)).collect()),
        }
    }};
    (@ KShortest, $g:expr, $id:expr, $lb:expr, $a:expr, $p:expr) => {{
        let m = algo::k_shortest_path($g, $id($p.s), None, $p.k, |e| *e.weight());
        let mut v: Vec<(usize, f64)> = m.into_iter().map(|(k, c)| ($lb(k), c)).collect();
        v.sort_by(|x, y| x.0.cmp(&y.0));
        Res::Map(v)
    }};
    (@ BellmanFord, $g:expr, $id:expr, $lb:expr, $a:expr, $p:expr) => {{
        match algo::bellman_ford($g, $id($p.s)) {
            Err(_) => Res::Failed("NegativeCycle".into()),
            Ok(paths) => {
                let mut d = Vec::new();
                let mut pr = Vec::new();
                for l in 0..$a.n {
                    let ix = NodeIndexable::to_index(&$g, $id(l));
                    d.push((l, paths.distances[ix]));
                    pr.push((l, paths.predecessors[ix].map(|x| $lb(x))));
                }
                Res::Tree(d, pr)
            }
        }
    }};
    (@ NegativeCycle, $g:expr, $id:expr, $lb:expr, $a:expr, $p:expr) => {{
        match algo::find_negative_cycle($g, $id($p.s)) {
            None => Res::Failed("none".into()),
            Some(c) => Res::Seq(c.into_iter().map(|x| $lb(x)).collect()),
        }
    }};
    (@ Spfa, $g:expr, $id:expr, $lb:expr, $a:expr, $p:expr) => {{
        match algo::spfa($g, $id($p.s), |e| *e.weight()) {
            Err(_) => Res::Failed("NegativeCycle".into()),
            Ok(paths) => {
                let mut d = Vec::new();
                let mut pr = Vec::new();
                for l in 0..$a.n {
                    let ix = NodeIndexable::to_index(&$g, $id(l));
                    d.push((l, paths.distances[ix]));
                    pr.push((l, paths.predecessors[ix].map(|x| $lb(x))));
                }
                Res::Tree(d, pr)
            }
        }
    }};
    (@ FloydWarshall, $g:expr, $id:expr, $lb:expr, $a:expr, $p:expr) => {{
        match algo::floyd_warshall($g, |e| *e.weight()) {
            Err(_) => Res::Failed("NegativeCycle".into()),
            Ok(m) => {
                let mut v: Vec<((usize, usize), f64)> = m.into_iter().map(|((x, y), c)| (($lb(x), $lb(y)), c)).collect();
                v.sort_by(|x, y| x.0.cmp(&y.0));
                Res::PairMap(v)
            }
        }
    }};
    (@ Mst, $g:expr, $id:expr, $lb:expr, $a:expr, $p:expr) => {{
        // element stream: nodes in node_references order, then edges indexed by stream position
        let ids: Vec<_> = $g.node_identifiers().collect();
        let mut total = 0.0;
        let mut edges = Vec::new();
        let mut nodes_seen = 0usize;
        for el in algo::min_spanning_tree($g) {
            match el {
                Element::Node { .. } => nodes_seen += 1,
                Element::Edge { source, target, weight } => {
                    total += weight;
                    edges.push(($lb(ids[source]), $lb(ids[target]), weight));
                }
            }
        }
        if nodes_seen != $a.n { Res::Failed(format!("{} node elements for {} nodes", nodes_seen, $a.n)) } else { Res::Edges(total, edges) }
    }};
    (@ MstPrim, $g:expr, $id:expr, $lb:expr, $a:expr, $p:expr) => {{
        let ids: Vec<_> = $g.node_identifiers().collect();
        let mut total = 0.0;
        let mut edges = Vec::new();
        for el in algo::min_spanning_tree_prim($g) {
            if let Element::Edge { source, target, weight } = el {
                total += weight;
                edges.push(($lb(ids[source]), $lb(ids[target]), weight));
            }
        }
        // Prim spans the component of the first node only: compare only on connected graphs
        if $a.n > 0 && $a.reach_undirected_all() { Res::Edges(total, edges) } else { Res::NA }
    }};
    (@ GreedyMatching, $g:expr, $id:expr, $lb:expr, $a:expr, $p:expr) => {{
        let m = algo::greedy_matching($g);
        let mut v = Vec::new();
        for l in 0..$a.n { if let Some(x) = m.mate($id(l)) { v.push((l, $lb(x))); } }
        // every accessor of Matching must describe the same set of pairs as mate()
        let mates: BTreeMap<usize, usize> = v.iter().copied().collect();
        let mut bad: Option<String> = None;
        let mut en: Vec<(usize, usize)> = m.edges().map(|(x, y)| { let (x, y) = ($lb(x), $lb(y)); (x.min(y), x.max(y)) }).collect();
        en.sort();
        let mut exp_e: Vec<(usize, usize)> = mates.iter().filter(|(&x, &y)| x < y).map(|(&x, &y)| (x, y)).collect();
        exp_e.sort();
        if en != exp_e { bad = Some(format!("edges() = {:?} but mate() pairs are {:?}", en, exp_e)); }
        let mut nn: Vec<usize> = m.nodes().map(|x| $lb(x)).collect();
        nn.sort();
        let exp_n: Vec<usize> = mates.keys().copied().collect();
        if nn != exp_n { bad = Some(format!("nodes() = {:?} but mate() is defined on {:?}", nn, exp_n)); }
        for l in 0..$a.n {
            if m.contains_node($id(l)) != mates.contains_key(&l) { bad = Some(format!("contains_node({}) = {} but mate() = {:?}", l, m.contains_node($id(l)), mates.get(&l))); }
            for l2 in 0..$a.n {
                let exp = mates.get(&l) == Some(&l2);
                if m.contains_edge($id(l), $id(l2)) != exp { bad = Some(format!("contains_edge({}, {}) = {} but mate({}) = {:?}", l, l2, !exp, l, mates.get(&l))); }
            }
        }
        if m.is_empty() != mates.is_empty() { bad = Some(format!("is_empty() = {} with mates {:?}", m.is_empty(), mates)); }
        if m.is_perfect() != (mates.len() == $a.n) { bad = Some(format!("is_perfect() = {} with {} of {} nodes matched", m.is_perfect(), mates.len(), $a.n)); }
        if let Some(b) = bad { Res::Failed(b) } else
        if m.len() * 2 != v.len() { Res::Failed(format!("len() = {} but {} nodes have a mate", m.len(), v.len())) } else { Res::LabelMap(v) }
    }};
    (@ MaximumMatching, $g:expr, $id:expr, $lb:expr, $a:expr, $p:expr) => {{
        let m = algo::maximum_matching($g);
        let mut v = Vec::new();
        for l in 0..$a.n { if let Some(x) = m.mate($id(l)) { v.push((l, $lb(x))); } }
        // every accessor of Matching must describe the same set of pairs as mate()
        let mates: BTreeMap<usize, usize> = v.iter().copied().collect();
        let mut bad: Option<String> = None;
        let mut en: Vec<(usize, usize)> = m.edges().map(|(x, y)| { let (x, y) = ($lb(x), $lb(y)); (x.min(y), x.max(y)) }).collect();
        en.sort();
        let mut exp_e: Vec<(usize, usize)> = mates.iter().filter(|(&x, &y)| x < y).map(|(&x, &y)| (x, y)).collect();
        exp_e.sort();
        if en != exp_e { bad = Some(format!("edges() = {:?} but mate() pairs are {:?}", en, exp_e)); }
        let mut nn: Vec<usize> = m.nodes().map(|x| $lb(x)).collect();
        nn.sort();
        let exp_n: Vec<usize> = mates.keys().copied().collect();
        if nn != exp_n { bad = Some(format!("nodes() = {:?} but mate() is defined on {:?}", nn, exp_n)); }
        for l in 0..$a.n {
            if m.contains_node($id(l)) != mates.contains_key(&l) { bad = Some(format!("contains_node({}) = {} but mate() = {:?}", l, m.contains_node($id(l)), mates.get(&l))); }
            for l2 in 0..$a.n {
                let exp = mates.get(&l) == Some(&l2);
                if m.contains_edge($id(l), $id(l2)) != exp { bad = Some(format!("contains_edge({}, {}) = {} but mate({}) = {:?}", l, l2, !exp, l, mates.get(&l))); }
            }
        }
        if m.is_empty() != mates.is_empty() { bad = Some(format!("is_empty() = {} with mates {:?}", m.is_empty(), mates)); }
        if m.is_perfect() != (mates.len() == $a.n) { bad = Some(format!("is_perfect() = {} with {} of {} nodes matched", m.is_perfect(), mates.len(), $a.n)); }
        if let Some(b) = bad { Res::Failed(b) } else
        if m.len() * 2 != v.len() { Res::Failed(format!("len() = {} but {} nodes have a mate", m.len(), v.len())) } else { Res::LabelMap(v) }
    }};
    (@ FordFulkerson, $g:expr, $id:expr, $lb:expr, $a:expr, $p:expr) => {{
        use petgraph::visit::EdgeIndexable;
        if $p.s == $p.t { Res::NA } else {
            let (value, flows) = algo::ford_fulkerson($g, $id($p.s), $id($p.t));
            let mut v = Vec::new();
            for e in $g.edge_references() {
                let ix = EdgeIndexable::to_index(&$g, e.id());
                v.push(($lb(e.source()), $lb(e.target()), *e.weight(), flows[ix]));
            }
            Res::Flow(value, v)
        }
    }};
    (@ ArticulationPoints, $g:expr, $id:expr, $lb:expr, $a:expr, $p:expr) => {{
        Res::Set(algo::articulation_points::articulation_points($g).into_iter().map(|x| $lb(x)).collect())
    }};
    (@ Dsatur, $g:expr, $id:expr, $lb:expr, $a:expr, $p:expr) => {{
        let (m, k) = algo::dsatur_coloring($g);
        let v: Vec<(usize, usize)> = { let mut v: Vec<(usize, usize)> = m.into_iter().map(|(n, c)| ($lb(n), c)).collect(); v.sort(); v };
        if v.iter().any(|x| x.1 >= k.max(1)) { Res::Failed(format!("colour out of range 0..{}", k)) } else { Res::LabelMap(v) }
    }};
    (@ PageRank, $g:expr, $id:expr, $lb:expr, $a:expr, $p:expr) => {{
        let r = algo::page_rank($g, 0.85f64, 12);
        let mut v = Vec::new();
        let mut short = false;
        for l in 0..$a.n {
            let ix = NodeIndexable::to_index(&$g, $id(l));
            match r.get(ix) { Some(x) => v.push((l, *x)), None => short = true }
        }
        if short { Res::Failed(format!("rank vector of length {} has no entry for some node index", r.len())) } else { Res::Floats(v) }
    }};
    (@ MaximalCliques, $g:expr, $id:expr, $lb:expr, $a:expr, $p:expr) => {{
        let cl: BTreeSet<BTreeSet<usize>> = algo::maximal_cliques($g).into_iter().map(|c| c.into_iter().map(|x| $lb(x)).collect()).collect();
        Res::Partition(cl)
    }};
    (@ FeedbackArcSet, $g:expr, $id:expr, $lb:expr, $a:expr, $p:expr) => {{
        let arcs: Vec<(usize, usize, f64)> = algo::greedy_feedback_arc_set($g).map(|e| ($lb(e.source()), $lb(e.target()), *e.weight())).collect();
        Res::Edges(0.0, arcs)
    }};
    (@ SimplePaths, $g:expr, $id:expr, $lb:expr, $a:expr, $p:expr) => {{
        let paths: BTreeSet<Vec<usize>> = algo::all_simple_paths::<Vec<_>, _, SimBuildHasher>($g, $id($p.s), $id($p.t), 0, Some($p.k + 1)).map(|pp| pp.into_iter().map(|x| $lb(x)).collect()).collect();
        Res::Paths(paths)
    }};
    (@ Graph6, $g:expr, $id:expr, $lb:expr, $a:expr, $p:expr) => {{
        use petgraph::graph6::ToGraph6;
        let s = $g.graph6_string();
        // decode with the documented format and map positions (node_identifiers order) to labels
        let ids: Vec<_> = $g.node_identifiers().collect();
        match decode_graph6(&s) {
            Err(e) => Res::Failed(e),
            Ok((n, adj)) => {
                if n != ids.len() { Res::Failed(format!("graph6 says {} nodes, graph has {}", n, ids.len())) } else {
                    let mut set = BTreeSet::new();
                    for (i, j) in adj { let (x, y) = ($lb(ids[i]), $lb(ids[j])); set.insert(vec![x.min(y), x.max(y)]); }
                    Res::Paths(set)
                }
            }
        }
    }};
}

/// Minimal graph6 decoder (short and long size header), used to compare what each replica's
/// graph6 string means; an oracle over strings, not a reimplementation of petgraph's encoder.
pub fn decode_graph6(s: &str) -> Result<(usize, Vec<(usize, usize)>), String> {
    let b: Vec<u8> = s.bytes().collect();
    if b.is_empty() {
        return Err("empty graph6 string".into());
    }
    let (n, mut pos) = if b[0] != 126 {
        ((b[0] as i64 - 63) as usize, 1)
    } else if b.len() >= 4 && b[1] != 126 {
        ((((b[1] as usize - 63) << 12) | ((b[2] as usize - 63) << 6) | (b[3] as usize - 63)), 4)
    } else {
        return Err("unsupported size header".into());
    };
    let mut bits = Vec::new();
    while pos < b.len() {
        let v = b[pos].checked_sub(63).ok_or("byte below 63")?;
        for k in (0..6).rev() {
            bits.push((v >> k) & 1 == 1);
        }
        pos += 1;
    }
    let need = n * n.saturating_sub(1) / 2;
    if bits.len() < need {
        return Err(format!("{} adjacency bits for {} nodes", bits.len(), n));
    }
    let mut adj = Vec::new();
    let mut k = 0;
    for j in 1..n {
        for i in 0..j {
            if bits[k] {
                adj.push((i, j));
            }
            k += 1;
        }
    }
    Ok((n, adj))
}

impl Abs {
    fn reach_undirected_all(&self) -> bool {
        if self.n == 0 {
            return true;
        }
        let und = Abs { directed: false, n: self.n, edges: self.edges.clone(), simple: self.simple };
        und.reach(0).len() == self.n
    }
}

// ---------------------------------------------------------------------------------------
// configuration, replicas, transport
// ---------------------------------------------------------------------------------------

#[derive(Clone, Debug, Serialize, Deserialize)]
pub struct Cfg {
    pub directed: bool,
    pub n: usize,
    pub simple: bool,
    pub params: Params,
    pub transport_seed: u64,
    pub hasher_seed: u64,
    pub shrinkable: Vec<String>,
}

/// ops = the abstract edge list (a, b, w)
pub type Op = (usize, usize, i32);

pub struct ReplicaEngine;

impl History for ReplicaEngine {
    type Cfg = Cfg;
    type Op = Op;
    fn name(&self) -> &'static str {
        "replicas"
    }
    fn rule(&self) -> &'static str {
        "abstract graph with >= 3 nodes and >= 2 edges on which at least 3 replicas passed the same-abstract-graph pre-check"
    }
    fn gen_cfg(&self, rng: &mut Rng, _tier: Tier) -> (Cfg, usize) {
        let mut n = match rng.below(10) {
            0 => rng.range(0, 2),
            1..=6 => rng.range(3, 6),
            _ => rng.range(7, 10),
        };
        // now and then a graph whose index spaces cross the word sizes of the bitsets and the
        // growth steps of the scratch structures
        if rng.chance(1, 300) {
            n = *rng.pick(&[33usize, 65, 70, 129, 140]);
        }
        let m = if n == 0 { 0 } else if n > 12 { n / 2 + rng.below(n + n / 2) } else { rng.below(2 * n + 2) };
        (
            Cfg {
                directed: rng.chance(1, 2),
                n,
                simple: rng.chance(2, 3),
                params: Params { s: if n > 0 { rng.below(n) } else { 0 }, t: if n > 0 { rng.below(n) } else { 0 }, k: rng.range(1, 3) },
                transport_seed: rng.next_u64(),
                hasher_seed: rng.next_u64(),
                shrinkable: vec!["n".to_string()],
            },
            m,
        )
    }
    fn execute(&self, cfg: &Cfg, mut feed: OpFeed<Op>, acc: &mut Acc, ops: &mut Vec<Op>) -> Exec {
        let n = cfg.n;
        let negative_run = cfg.transport_seed % 5 == 0;
        while let Some(op) = feed.next(|rng| {
            let w = if negative_run && rng.chance(1, 4) { -(rng.range(1, 3) as i32) } else { rng.below(10) as i32 };
            (rng.below(n.max(1)), if rng.chance(1, 10) { usize::MAX } else { rng.below(n.max(1)) }, w)
        }) {
            ops.push(op);
        }
        if cfg.directed {
            run::<Directed>(cfg, ops, acc)
        } else {
            run::<Undirected>(cfg, ops, acc)
        }
    }
}

fn build_abs(cfg: &Cfg, ops: &[Op]) -> Abs {
    let n = cfg.n.min(160);
    let mut edges: Vec<(usize, usize, f64)> = Vec::new();
    if n > 0 {
        for &(a, b, w) in ops.iter().take(400) {
            let a = a % n;
            // usize::MAX marks "self-loop at a"
            let b = if b == usize::MAX { a } else { b % n };
            let w = (w.clamp(-5, 20)) as f64;
            if cfg.simple {
                let dup = edges.iter().any(|&(x, y, _)| (x == a && y == b) || (!cfg.directed && x == b && y == a));
                if dup {
                    continue;
                }
            }
            edges.push((a, b, w));
        }
    }
    let p = &cfg.params;
    let _ = p;
    Abs { directed: cfg.directed, n, edges, simple: cfg.simple }
}

/// Transport: a seeded permutation of the node insertion order, a seeded permutation of the
/// edge insertions, padding that is removed again, and neutral detours.
struct Transport {
    node_order: Vec<usize>,
    edge_order: Vec<usize>,
    /// padding nodes inserted before position i of node_order (removed later)
    pad_nodes_at: Vec<usize>,
    pad_edges: usize,
    detour_reverse_twice: bool,
    detour_clear_edges: bool,
    duplicate_updates: bool,
}

fn transport(seed: u64, replica: u64, a: &Abs, perturb: bool) -> Transport {
    let mut r = Rng::new(mix(seed, replica));
    let mut node_order: Vec<usize> = (0..a.n).collect();
    let mut edge_order: Vec<usize> = (0..a.edges.len()).collect();
    if perturb {
        for i in (1..node_order.len()).rev() {
            node_order.swap(i, r.below(i + 1));
        }
        for i in (1..edge_order.len()).rev() {
            edge_order.swap(i, r.below(i + 1));
        }
    }
    let pads = if perturb { r.below(4) } else { 0 };
    Transport {
        node_order,
        edge_order,
        pad_nodes_at: (0..pads).map(|_| r.below(a.n + 1)).collect(),
        pad_edges: if perturb { r.below(3) } else { 0 },
        detour_reverse_twice: perturb && r.chance(1, 3),
        detour_clear_edges: perturb && r.chance(1, 5),
        duplicate_updates: perturb && r.chance(1, 3),
    }
}

const PAD: u32 = 1_000_000;

macro_rules! build_indexed {
    // Graph / StableGraph: node weight = label, padding nodes carry weight >= PAD
    ($G:ident, $Ty:ty, $Ix:ty, $a:expr, $t:expr) => {{
        let a: &Abs = $a;
        let t: &Transport = $t;
        let mut g: $G<u32, f64, $Ty, $Ix> = $G::default();
        let mut pads = Vec::new();
        for (pos, &l) in t.node_order.iter().enumerate() {
            for _ in t.pad_nodes_at.iter().filter(|&&p| p == pos) {
                pads.push(g.add_node(PAD + pads.len() as u32));
            }
            g.add_node(l as u32);
        }
        for _ in t.pad_nodes_at.iter().filter(|&&p| p >= t.node_order.len()) {
            pads.push(g.add_node(PAD + pads.len() as u32));
        }
        let find = |g: &$G<u32, f64, $Ty, $Ix>, l: usize| g.node_indices().find(|&i| g[i] == l as u32).unwrap();
        // padding edges between padding nodes and real nodes (removed with the padding nodes)
        if !pads.is_empty() && a.n > 0 {
            for k in 0..t.pad_edges {
                let x = pads[k % pads.len()];
                let y = find(&g, k % a.n);
                g.add_edge(x, y, 99.0);
                g.add_edge(y, x, 98.0);
            }
        }
        let mut first_half = t.edge_order.len() / 2;
        if !t.detour_clear_edges {
            first_half = t.edge_order.len();
        }
        for &ei in &t.edge_order[..first_half] {
            let (x, y, w) = a.edges[ei];
            let (ix, iy) = (find(&g, x), find(&g, y));
            g.add_edge(ix, iy, w);
        }
        if t.detour_clear_edges {
            // neutral detour: drop everything and re-deliver
            g.clear_edges();
            for &ei in &t.edge_order {
                let (x, y, w) = a.edges[ei];
                let (ix, iy) = (find(&g, x), find(&g, y));
                g.add_edge(ix, iy, w);
            }
        }
        if t.duplicate_updates && a.simple {
            // idempotent duplicate delivery
            for &ei in t.edge_order.iter().take(3) {
                let (x, y, w) = a.edges[ei];
                let (ix, iy) = (find(&g, x), find(&g, y));
                g.update_edge(ix, iy, w);
            }
        }
        // an extra edge that is removed again (vacancy below edge_bound / swap renumbering)
        if a.n > 0 && t.pad_edges > 0 {
            let x = find(&g, 0);
            let e = g.add_edge(x, x, 97.0);
            g.remove_edge(e);
        }
        for p in pads.into_iter().rev() {
            // Graph renumbers on removal: look the padding node up by weight each time
            let w = PAD;
            let _ = w;
            let _ = p;
            if let Some(i) = g.node_indices().find(|&i| g[i] >= PAD) {
                g.remove_node(i);
            }
        }
        if t.detour_reverse_twice {
            g.reverse();
            g.reverse();
        }
        g
    }};
}

fn precheck(name: &str, a: &Abs, nodes: Vec<usize>, edges: Vec<(usize, usize, f64)>) -> Result<(), String> {
    let mut ns = nodes.clone();
    ns.sort();
    if ns != (0..a.n).collect::<Vec<_>>() {
        return Err(format!("{}: node labels {:?} instead of 0..{}", name, nodes, a.n));
    }
    let mut es: Vec<(usize, usize, i64)> = edges.iter().map(|&(x, y, w)| { let (p, q) = a.canon(x, y); (p, q, w as i64) }).collect();
    es.sort();
    if es != a.edge_multiset() {
        return Err(format!("{}: edges {:?} instead of {:?}", name, es, a.edge_multiset()));
    }
    Ok(())
}

fn run<Ty: EdgeType + Clone + 'static>(cfg: &Cfg, ops: &[Op], acc: &mut Acc) -> Exec
where
    Ty: ReplicaSet,
{
    let a = build_abs(cfg, ops);
    acc.probe_if(a.n > 64, "abstract_graph_with_more_than_64_nodes");
    let mut p = cfg.params.clone();
    if a.n > 0 {
        p.s %= a.n;
        p.t %= a.n;
    } else {
        p.s = 0;
        p.t = 0;
    }
    p.k = p.k.clamp(1, 3);
    let mut h = StateHasher::new();
    h.add(a.directed as u64);
    h.add(a.n as u64);
    for e in a.edge_multiset() {
        h.add(((e.0 as u64) << 40) ^ ((e.1 as u64) << 20) ^ (e.2 as u64 & 0xFFFFF));
    }
    acc.state(h.finish());
    acc.op("abstract_graph", 0);
    if a.n == 0 {
        // empty graph: run the suite anyway (boundary), no start node
        return Exec { violation: None, nontrivial: false };
    }
    match Ty::run_all(cfg, &a, &p, acc) {
        Ok(ok_replicas) => Exec { violation: None, nontrivial: a.n >= 3 && a.edges.len() >= 2 && ok_replicas >= 3 },
        Err((class, detail)) => Exec { violation: Some(Violation::new(format!("replicas/{}", class), detail, 0)), nontrivial: true },
    }
}

pub trait ReplicaSet {
    fn run_all(cfg: &Cfg, a: &Abs, p: &Params, acc: &mut Acc) -> Result<usize, (String, String)>;
}

fn set_seed(seed: u64) {
    foldhash::sim_set_seed(seed);
    set_sim_hasher(seed, 0);
}

/// run one algorithm on one replica under a hasher seed, turning a panic into Res::Panic
macro_rules! guarded {
    ($seed:expr, $body:expr) => {{
        set_seed($seed);
        match catch(|| $body) {
            Ok(r) => r,
            Err(p) => Res::Panic(p),
        }
    }};
}

macro_rules! compare_replica {
    ($name:expr, $algo:expr, $a:expr, $p:expr, $r0:expr, $acc:expr, $seed:expr, $seed2:expr, $body:expr) => {{
        let ri: Res = guarded!($seed, $body);
        if ri != Res::NA {
            $acc.probe(concat_name($name));
            if let Err(d) = judge($algo, $a, $p, $r0, &ri) {
                let d = format!("{} (reference Graph<u32>: {}; this encoding: {})", d, brief($r0), brief(&ri));
                // judge may tag the failure: "[tag] message"
                let kind: String = match &ri {
                    Res::Panic(_) => "panic".into(),
                    _ => match d.strip_prefix('[').and_then(|r| r.split_once(']')) { Some((t, _)) => t.to_string(), None => "differs".into() },
                };
                let class = format!("{}{}/{}/{}", $algo.name(), if $a.directed { "@directed" } else { "@undirected" }, kind, $name);
                if $acc.is_known(&format!("replicas/{}", class)) {
                    // a recorded finding: count it and keep checking the other algorithms
                    $acc.known_hit(&format!("replicas/{}", class));
                    continue;
                }
                return Err((class, format!("{} on {}: {} [abstract graph: directed={} n={} edges={:?} s={} t={} k={}]", $algo.name(), $name, d, $a.directed, $a.n, $a.edges, $p.s, $p.t, $p.k)));
            }
            // the same replica under a second hasher seed must agree with itself
            let rj: Res = guarded!($seed2, $body);
            if let Err(d) = judge($algo, $a, $p, &ri, &rj) {
                return Err((format!("{}{}/hasher-seed/{}", $algo.name(), if $a.directed { "@directed" } else { "@undirected" }, $name), format!("{} on {} depends on the hasher seed: {} [abstract graph: directed={} n={} edges={:?} s={} t={} k={}]", $algo.name(), $name, d, $a.directed, $a.n, $a.edges, $p.s, $p.t, $p.k)));
            }
        }
    }};
}

fn concat_name(n: &str) -> &'static str {
    match n {
        "Graph<u8>" => "algo_ran_on_graph_u8",
        "StableGraph<u16>+holes" => "algo_ran_on_stable_graph_with_holes",
        "StableGraph<u16>" => "algo_ran_on_stable_graph_without_holes",
        "MatrixGraph<u16>+holes" => "algo_ran_on_matrix_graph_with_holes",
        "MatrixGraph<u16>" => "algo_ran_on_matrix_graph_without_holes",
        "GraphMap" => "algo_ran_on_graphmap",
        "Csr<u32>" => "algo_ran_on_csr",
        "List<u8>" => "algo_ran_on_list",
        _ => "algo_ran_on_other",
    }
}

macro_rules! impl_replica_set {
    ($Ty:ty, graph: [$($gf:ident),*], stable: [$($sf:ident),*], matrix: [$($mf:ident),*], gmap: [$($pf:ident),*], csr: [$($cf:ident),*], list: [$($lf:ident),*]) => {
        impl ReplicaSet for $Ty {
            fn run_all(cfg: &Cfg, a: &Abs, p: &Params, acc: &mut Acc) -> Result<usize, (String, String)> {
                let seed = cfg.hasher_seed;
                let seed2 = mix(cfg.hasher_seed, 0x5eed);
                set_seed(seed);
                // ---- replica 0: clean Graph<u32>
                let t0 = transport(cfg.transport_seed, 0, a, false);
                let g0: Graph<u32, f64, $Ty, u32> = build_indexed!(Graph, $Ty, u32, a, &t0);
                let id0 = |l: usize| g0.node_indices().find(|&i| g0[i] == l as u32).unwrap();
                let lb0 = |i: NodeIndex<u32>| g0[i] as usize;
                if let Err(d) = precheck("Graph<u32>", a, g0.node_indices().map(|i| lb0(i)).collect(), g0.edge_references().map(|e| (lb0(e.source()), lb0(e.target()), *e.weight())).collect()) {
                    return Err(("harness/reference-build".into(), d));
                }
                let mut ok_replicas = 1usize;
                // ---- replica 1: Graph<u8>, perturbed
                let t1 = transport(cfg.transport_seed, 1, a, true);
                let built1 = catch(|| { let g: Graph<u32, f64, $Ty, u8> = build_indexed!(Graph, $Ty, u8, a, &t1); g });
                let g1 = match built1 { Ok(g) => Some(g), Err(_) => { acc.probe("replica_build_panicked"); None } };
                let g1 = g1.filter(|g| precheck("Graph<u8>", a, g.node_indices().map(|i| g[i] as usize).collect(), g.edge_references().map(|e| (g[e.source()] as usize, g[e.target()] as usize, *e.weight())).collect()).map_err(|_| acc.probe("replica_discarded_precheck")).is_ok());
                // ---- replica 2: StableGraph<u16> with vacancies
                let t2 = transport(cfg.transport_seed, 2, a, true);
                let built2 = catch(|| { let g: StableGraph<u32, f64, $Ty, u16> = build_indexed!(StableGraph, $Ty, u16, a, &t2); g });
                let g2 = match built2 { Ok(g) => Some(g), Err(_) => { acc.probe("replica_build_panicked"); None } };
                let g2 = g2.filter(|g| precheck("StableGraph<u16>", a, g.node_indices().map(|i| g[i] as usize).collect(), g.edge_references().map(|e| (g[e.source()] as usize, g[e.target()] as usize, *e.weight())).collect()).map_err(|_| acc.probe("replica_discarded_precheck")).is_ok());
                if let Some(g) = &g2 {
                    acc.probe_if(g.node_count() != NodeIndexable::node_bound(g), "stable_replica_has_node_holes");
                }
                // ---- replica 3: MatrixGraph<u16> (simple graphs only), with vacant ids
                let t3 = transport(cfg.transport_seed, 3, a, true);
                let g3: Option<(MatrixGraph<u32, f64, SimBuildHasher, $Ty, Option<f64>, u16>, Vec<petgraph::matrix_graph::NodeIndex<u16>>)> = if a.simple {
                    catch(|| {
                        let mut g: MatrixGraph<u32, f64, SimBuildHasher, $Ty, Option<f64>, u16> = MatrixGraph::default();
                        let mut ids = vec![petgraph::matrix_graph::NodeIndex::<u16>::new(0); a.n];
                        let mut pads = Vec::new();
                        for (pos, &l) in t3.node_order.iter().enumerate() {
                            for _ in t3.pad_nodes_at.iter().filter(|&&pp| pp == pos) { pads.push(g.add_node(PAD)); }
                            ids[l] = g.add_node(l as u32);
                        }
                        for (k, &pd) in pads.iter().enumerate() {
                            if t3.pad_edges > 0 { g.update_edge(pd, ids[k % a.n], 99.0); g.update_edge(ids[k % a.n], pd, 98.0); }
                        }
                        for &ei in &t3.edge_order { let (x, y, w) = a.edges[ei]; g.add_edge(ids[x], ids[y], w); }
                        for pd in pads { g.remove_node(pd); }
                        (g, ids)
                    }).ok()
                } else { None };
                let g3 = g3.filter(|(g, _ids)| precheck("MatrixGraph<u16>", a, g.node_identifiers().map(|i| g[i] as usize).collect(), g.edge_references().map(|e| (g[e.source()] as usize, g[e.target()] as usize, *e.weight())).collect()).map_err(|_| acc.probe("replica_discarded_precheck")).is_ok());
                if let Some((g, _)) = &g3 {
                    acc.probe_if(g.node_count() != NodeIndexable::node_bound(g), "matrix_replica_has_node_holes");
                }
                // ---- replica 4: GraphMap (simple graphs only), keys = labels
                let t4 = transport(cfg.transport_seed, 4, a, true);
                let g4: Option<GraphMap<u32, f64, $Ty, SimBuildHasher>> = if a.simple {
                    catch(|| {
                        let mut g: GraphMap<u32, f64, $Ty, SimBuildHasher> = GraphMap::default();
                        for (pos, &l) in t4.node_order.iter().enumerate() {
                            if t4.pad_nodes_at.contains(&pos) { g.add_node(PAD + pos as u32); }
                            g.add_node(l as u32);
                        }
                        if t4.pad_edges > 0 { g.add_edge(PAD + 77, 0, 99.0); }
                        for &ei in &t4.edge_order { let (x, y, w) = a.edges[ei]; g.add_edge(x as u32, y as u32, w); }
                        if t4.duplicate_updates { for &ei in t4.edge_order.iter().take(2) { let (x, y, w) = a.edges[ei]; g.add_edge(x as u32, y as u32, w); } }
                        let padded: Vec<u32> = g.nodes().filter(|&k| k >= PAD).collect();
                        for k in padded { g.remove_node(k); }
                        g
                    }).ok()
                } else { None };
                let g4 = g4.filter(|g| precheck("GraphMap", a, g.nodes().map(|k| k as usize).collect(), g.all_edges().map(|(x, y, w)| (x as usize, y as usize, *w)).collect()).map_err(|_| acc.probe("replica_discarded_precheck")).is_ok());
                // ---- replica 5: Csr<u32> (simple graphs only): node i holds label perm[i]
                let t5 = transport(cfg.transport_seed, 5, a, true);
                let g5: Option<Csr<u32, f64, $Ty, u32>> = if a.simple {
                    catch(|| {
                        let mut g: Csr<u32, f64, $Ty, u32> = Csr::new();
                        for &l in &t5.node_order { g.add_node(l as u32); }
                        let pos_of = |l: usize| t5.node_order.iter().position(|&x| x == l).unwrap() as u32;
                        for &ei in &t5.edge_order { let (x, y, w) = a.edges[ei]; g.add_edge(pos_of(x), pos_of(y), w); }
                        g
                    }).ok()
                } else { None };
                let g5 = g5.filter(|g| precheck("Csr<u32>", a, g.node_identifiers().map(|i| g[i] as usize).collect(), g.edge_references().map(|e| (g[e.source()] as usize, g[e.target()] as usize, *e.weight())).collect()).map_err(|_| acc.probe("replica_discarded_precheck")).is_ok());
                // ---- replica 6: adj::List<u8> (directed only): node i holds label order[i]
                let t6 = transport(cfg.transport_seed, 6, a, true);
                let g6: Option<List<f64, u8>> = if a.directed {
                    catch(|| {
                        let mut g: List<f64, u8> = List::new();
                        for _ in &t6.node_order { g.add_node(); }
                        let pos_of = |l: usize| t6.node_order.iter().position(|&x| x == l).unwrap() as u8;
                        for &ei in &t6.edge_order { let (x, y, w) = a.edges[ei]; g.add_edge(pos_of(x), pos_of(y), w); }
                        g
                    }).ok()
                } else { None };
                ok_replicas += [g1.is_some(), g2.is_some(), g3.is_some(), g4.is_some(), g5.is_some(), g6.is_some()].iter().filter(|x| **x).count();

                for &algo in ALL_ALGOS {
                    if !algo.applicable(a) { continue; }
                    let r0: Res = guarded!(seed, run_algo!(algo, &g0, id0, lb0, a, p; $($gf),*));
                    if r0 == Res::NA { continue; }
                    acc.op(algo.name(), algo as u8);
                    if let Res::Failed(m) = &r0 { if m.contains("emitted twice") || m.contains("len() =") { acc.probe("reference_result_invalid"); } }
                    if let Some(g) = &g1 {
                        let id = |l: usize| g.node_indices().find(|&i| g[i] == l as u32).unwrap();
                        let lb = |i: NodeIndex<u8>| g[i] as usize;
                        compare_replica!("Graph<u8>", algo, a, p, &r0, acc, seed, seed2, run_algo!(algo, g, id, lb, a, p; $($gf),*));
                    }
                    if let Some(g) = &g2 {
                        let id = |l: usize| g.node_indices().find(|&i| g[i] == l as u32).unwrap();
                        let lb = |i: NodeIndex<u16>| g[i] as usize;
                        let nm = if g.node_count() != NodeIndexable::node_bound(g) || g.edge_count() != petgraph::visit::EdgeIndexable::edge_bound(g) { "StableGraph<u16>+holes" } else { "StableGraph<u16>" };
                        compare_replica!(nm, algo, a, p, &r0, acc, seed, seed2, run_algo!(algo, g, id, lb, a, p; $($sf),*));
                    }
                    if let Some((g, ids)) = &g3 {
                        let id = |l: usize| ids[l];
                        let lb = |i: petgraph::matrix_graph::NodeIndex<u16>| g[i] as usize;
                        let nm = if g.node_count() != NodeIndexable::node_bound(g) { "MatrixGraph<u16>+holes" } else { "MatrixGraph<u16>" };
                        compare_replica!(nm, algo, a, p, &r0, acc, seed, seed2, run_algo!(algo, g, id, lb, a, p; $($mf),*));
                    }
                    if let Some(g) = &g4 {
                        let id = |l: usize| l as u32;
                        let lb = |k: u32| k as usize;
                        compare_replica!("GraphMap", algo, a, p, &r0, acc, seed, seed2, run_algo!(algo, g, id, lb, a, p; $($pf),*));
                    }
                    if let Some(g) = &g5 {
                        let id = |l: usize| t5.node_order.iter().position(|&x| x == l).unwrap() as u32;
                        let lb = |i: u32| g[i] as usize;
                        compare_replica!("Csr<u32>", algo, a, p, &r0, acc, seed, seed2, run_algo!(algo, g, id, lb, a, p; $($cf),*));
                    }
                    if let Some(g) = &g6 {
                        let id = |l: usize| t6.node_order.iter().position(|&x| x == l).unwrap() as u8;
                        let lb = |i: u8| t6.node_order[i as usize];
                        compare_replica!("List<u8>", algo, a, p, &r0, acc, seed, seed2, run_algo!(algo, g, id, lb, a, p; $($lf),*));
                    }
                }
                // ---- entry points with two-graph or Graph-only signatures
                extras::<$Ty>(cfg, a, p, acc, &g0, g1.as_ref(), g4.as_ref(), g2.as_ref(), g3.as_ref().map(|x| (&x.0, &x.1[..])), seed)?;
                Ok(ok_replicas)
            }
        }
    };
}

/// is_isomorphic* between replicas of the same abstract graph (must hold, replicas are
/// relabelings of each other), tred on DAGs and condensation: compared across encodings.
fn extras<Ty: EdgeType + Clone + 'static>(
    _cfg: &Cfg,
    a: &Abs,
    _p: &Params,
    acc: &mut Acc,
    g0: &Graph<u32, f64, Ty, u32>,
    g1: Option<&Graph<u32, f64, Ty, u8>>,
    g4: Option<&GraphMap<u32, f64, Ty, SimBuildHasher>>,
    g2: Option<&StableGraph<u32, f64, Ty, u16>>,
    g3: Option<(&MatrixGraph<u32, f64, SimBuildHasher, Ty, Option<f64>, u16>, &[NodeIndex<u16>])>,
    seed: u64,
) -> Result<(), (String, String)> {
    let dirtag = if a.directed { "@directed" } else { "@undirected" };
    let ctx = format!("[abstract graph: directed={} n={} edges={:?}]", a.directed, a.n, a.edges);
    macro_rules! fail {
        ($algo:expr, $kind:expr, $rep:expr, $($arg:tt)*) => {{
            let class = format!("{}{}/{}/{}", $algo, dirtag, $kind, $rep);
            if acc.is_known(&format!("replicas/{}", class)) { acc.known_hit(&format!("replicas/{}", class)); } else {
                return Err((class, format!("{} {}", format!($($arg)*), ctx)));
            }
        }};
    }
    // a DfsSpace depends on the node id and map types only, so one sized for the MatrixGraph
    // replica can be handed to the StableGraph replica and the other way round: the two have
    // different index bounds for the same abstract graph
    if let (Some(s2), Some((m3, ids3))) = (g2, g3) {
        acc.op("dfs_space_shared_between_encodings", 63);
        let id2 = |l: usize| s2.node_indices().find(|&i| s2[i] == l as u32).unwrap();
        let (s_, t_) = (_p.s, _p.t);
        let r = catch(|| {
            let plain2 = algo::has_path_connecting(s2, id2(s_), id2(t_), None);
            let plain3 = algo::has_path_connecting(m3, ids3[s_], ids3[t_], None);
            let mut space = algo::DfsSpace::new(m3);
            let _ = algo::has_path_connecting(m3, ids3[t_], ids3[s_], Some(&mut space));
            let shared2 = algo::has_path_connecting(s2, id2(s_), id2(t_), Some(&mut space));
            let shared3 = algo::has_path_connecting(m3, ids3[s_], ids3[t_], Some(&mut space));
            let mut space = algo::DfsSpace::new(s2);
            let _ = algo::has_path_connecting(s2, id2(t_), id2(s_), Some(&mut space));
            let back3 = algo::has_path_connecting(m3, ids3[s_], ids3[t_], Some(&mut space));
            let back2 = algo::has_path_connecting(s2, id2(s_), id2(t_), Some(&mut space));
            let topo = if a.directed {
                let mut space = algo::DfsSpace::new(m3);
                let t2 = algo::toposort(s2, Some(&mut space)).map(|o| o.into_iter().map(|i| s2[i] as usize).collect::<Vec<_>>()).map_err(|_| ());
                Some((t2, ))
            } else {
                None
            };
            (plain2, plain3, shared2, shared3, back3, back2, topo)
        });
        match r {
            Ok((plain2, plain3, shared2, shared3, back3, back2, topo)) => {
                if plain2 != shared2 || plain2 != back2 {
                    fail!("has_path_connecting_shared_space", "differs", "StableGraph<u16>", "has_path_connecting({}, {}) = {} without a workspace, {} / {} with one that served the MatrixGraph encoding", s_, t_, plain2, shared2, back2);
                }
                if plain3 != shared3 || plain3 != back3 {
                    fail!("has_path_connecting_shared_space", "differs", "MatrixGraph<u16>", "has_path_connecting({}, {}) = {} without a workspace, {} / {} with one that served the StableGraph encoding", s_, t_, plain3, shared3, back3);
                }
                if let Some((t2, )) = topo {
                    for (name, t) in [("StableGraph<u16>", &t2)] {
                        match t {
                            Ok(order) => {
                                if let Err(d) = is_topo_order(a, order) {
                                    let acyclic = (0..a.n).all(|v| !on_cycle(a, v));
                                    if acyclic {
                                        fail!("toposort_shared_space", "differs", name, "toposort with a workspace shared between encodings: {}", d);
                                    }
                                }
                            }
                            Err(()) => {
                                if (0..a.n).all(|v| !on_cycle(a, v)) {
                                    fail!("toposort_shared_space", "differs", name, "toposort with a workspace shared between encodings reports a cycle in an acyclic graph");
                                }
                            }
                        }
                    }
                }
            }
            Err(pn) => fail!("dfs_space_shared_between_encodings", "panic", "StableGraph<u16>/MatrixGraph<u16>", "panicked: {}", pn),
        }
    }
    if a.simple && a.n <= 8 {
        set_seed(seed);
        acc.op("is_isomorphic", 60);
        if let Some(g1) = g1 {
            match catch(|| (algo::is_isomorphic(g0, g1), algo::is_isomorphic(g1, g0), algo::is_isomorphic_matching(g0, g1, |x, y| x == y, |x, y| x == y), algo::is_isomorphic_subgraph(g1, g0))) {
                Ok((x, y, z, w)) => {
                    if !(x && y) { fail!("is_isomorphic", "differs", "Graph<u8>", "two encodings of the same abstract graph are reported non-isomorphic ({} / {})", x, y); }
                    if !z { fail!("is_isomorphic_matching", "differs", "Graph<u8>", "label- and weight-preserving matching between two encodings of the same graph not found"); }
                    if !w { fail!("is_isomorphic_subgraph", "differs", "Graph<u8>", "a graph is reported not to be a subgraph of another encoding of itself"); }
                }
                Err(p) => fail!("is_isomorphic", "panic", "Graph<u8>", "panicked: {}", p),
            }
        }
        if let Some(g4) = g4 {
            match catch(|| (algo::is_isomorphic(g0, g4), algo::is_isomorphic(g4, g0), algo::is_isomorphic_subgraph(g4, g0))) {
                Ok((x, y, z)) => {
                    if !(x && y) { fail!("is_isomorphic", "differs", "GraphMap", "two encodings of the same abstract graph are reported non-isomorphic ({} / {})", x, y); }
                    if !z { fail!("is_isomorphic_subgraph", "differs", "GraphMap", "a graph is reported not to be a subgraph of another encoding of itself"); }
                }
                Err(p) => fail!("is_isomorphic", "panic", "GraphMap", "panicked: {}", p),
            }
        }
    }
    if !a.directed && !a.has_negative() && a.n >= 2 {
        // steiner_tree takes `&UnGraph` only: the two Graph replicas differ in index width and
        // insertion order. It is a heuristic (ties may be broken differently), so only validity
        // is compared: a connected subgraph of the input that contains every terminal.
        acc.op("steiner_tree", 64);
        // terminals: every other node of the component of s (always connected among themselves)
        let mut comp: Vec<usize> = Vec::new();
        {
            let mut seen = BTreeSet::new();
            let mut stack = vec![_p.s.min(a.n - 1)];
            while let Some(x) = stack.pop() {
                if !seen.insert(x) { continue; }
                for &(u, v, _) in &a.edges {
                    if u == x { stack.push(v); }
                    if v == x { stack.push(u); }
                }
            }
            comp.extend(seen);
        }
        let terminals: Vec<usize> = if comp.len() <= 3 || _p.k % 2 == 0 { comp.clone() } else { comp.iter().copied().step_by(2).collect() };
        if terminals.len() >= 2 {
            fn run_steiner<Ty: EdgeType, Ix: IndexType>(g: &Graph<u32, f64, Ty, Ix>, terminals: &[usize]) -> (Vec<u32>, Vec<(u32, u32, i64)>) {
                let mut ug: petgraph::graph::UnGraph<u32, i64, Ix> = petgraph::graph::UnGraph::default();
                for i in g.node_indices() { ug.add_node(g[i]); }
                for e in g.edge_references() { ug.add_edge(NodeIndex::new(e.source().index()), NodeIndex::new(e.target().index()), *e.weight() as i64); }
                let ts: Vec<NodeIndex<Ix>> = terminals.iter().map(|&l| ug.node_indices().find(|&i| ug[i] == l as u32).unwrap()).collect();
                let t = algo::steiner_tree::steiner_tree(&ug, &ts);
                (t.node_weights().copied().collect(), t.edge_references().map(|e| (t[e.source()], t[e.target()], *e.weight())).collect())
            }
            let validate = |r: &(Vec<u32>, Vec<(u32, u32, i64)>)| -> Result<(), String> {
                let nodes: BTreeSet<usize> = r.0.iter().map(|&x| x as usize).collect();
                for &t in &terminals {
                    if !nodes.contains(&t) { return Err(format!("terminal {} is missing from the tree (nodes {:?})", t, nodes)); }
                }
                for &(x, y, w) in &r.1 {
                    let ok = a.edges.iter().any(|&(u, v, ww)| ((u == x as usize && v == y as usize) || (u == y as usize && v == x as usize)) && ww as i64 == w);
                    if !ok { return Err(format!("tree edge {} - {} (weight {}) is not an edge of the graph", x, y, w)); }
                }
                // connected over its own edges
                let mut seen = BTreeSet::new();
                let mut stack = vec![terminals[0]];
                while let Some(x) = stack.pop() {
                    if !seen.insert(x) { continue; }
                    for &(u, v, _) in &r.1 {
                        if u as usize == x { stack.push(v as usize); }
                        if v as usize == x { stack.push(u as usize); }
                    }
                }
                for &t in &terminals {
                    if !seen.contains(&t) { return Err(format!("terminal {} is not connected to terminal {} inside the tree {:?}", t, terminals[0], r.1)); }
                }
                Ok(())
            };
            let r0 = catch(|| run_steiner(g0, &terminals));
            if let (Ok(x0), Some(g1)) = (&r0, g1) {
                if validate(x0).is_ok() {
                    match catch(|| run_steiner(g1, &terminals)) {
                        Ok(x1) => if let Err(d) = validate(&x1) { fail!("steiner_tree", "differs", "Graph<u8>", "terminals {:?}: {} (the reference Graph<u32> gives a valid tree)", terminals, d); },
                        Err(pn) => fail!("steiner_tree", "panic", "Graph<u8>", "terminals {:?}: panicked: {}", terminals, pn),
                    }
                }
            }
        }
    }
    if a.directed {
        // condensation (Graph only): the partition and the inter-component edge multiset
        acc.op("condensation", 61);
        let cond = |make_acyclic: bool, nodes: Vec<Vec<u32>>, edges: Vec<(usize, usize, f64)>| -> (BTreeSet<BTreeSet<u32>>, Vec<(BTreeSet<u32>, BTreeSet<u32>, i64)>) {
            let _ = make_acyclic;
            let part: BTreeSet<BTreeSet<u32>> = nodes.iter().map(|c| c.iter().copied().collect()).collect();
            let mut es: Vec<(BTreeSet<u32>, BTreeSet<u32>, i64)> = edges.iter().map(|&(x, y, w)| (nodes[x].iter().copied().collect(), nodes[y].iter().copied().collect(), w as i64)).collect();
            es.sort();
            (part, es)
        };
        for make_acyclic in [false, true] {
            let r0 = catch(|| { let c = algo::condensation(g0.clone(), make_acyclic); cond(make_acyclic, c.node_weights().cloned().collect(), c.edge_references().map(|e| (e.source().index(), e.target().index(), *e.weight())).collect()) });
            if let Some(g1) = g1 {
                let r1 = catch(|| { let c = algo::condensation(g1.clone(), make_acyclic); cond(make_acyclic, c.node_weights().cloned().collect(), c.edge_references().map(|e| (e.source().index(), e.target().index(), *e.weight())).collect()) });
                match (&r0, &r1) {
                    (Ok(x), Ok(y)) => {
                        if x.0 != y.0 { fail!("condensation", "differs", "Graph<u8>", "component partition differs: {:?} vs {:?}", x.0, y.0); }
                        // with make_acyclic parallel edges between components are dropped: which weight survives is unspecified
                        let strip = |v: &Vec<(BTreeSet<u32>, BTreeSet<u32>, i64)>| -> Vec<(BTreeSet<u32>, BTreeSet<u32>)> { let mut s: Vec<_> = v.iter().map(|e| (e.0.clone(), e.1.clone())).collect(); s.sort(); s.dedup(); s };
                        if make_acyclic { if strip(&x.1) != strip(&y.1) { fail!("condensation", "differs", "Graph<u8>", "condensed edges differ: {:?} vs {:?}", x.1, y.1); } }
                        else if x.1 != y.1 { fail!("condensation", "differs", "Graph<u8>", "condensed edge multiset differs: {:?} vs {:?}", x.1, y.1); }
                    }
                    (Ok(_), Err(p)) => fail!("condensation", "panic", "Graph<u8>", "panicked: {}", p),
                    _ => {}
                }
            }
        }
        // transitive reduction / closure of a DAG
        let acyclic = (0..a.n).all(|v| !on_cycle(a, v));
        if acyclic && a.simple {
            acc.op("tred", 62);
            fn norm(red: &List<(), u32>, clo: &List<(), u32>, topo_labels: &[usize]) -> (BTreeSet<(usize, usize)>, BTreeSet<(usize, usize)>) {
                let f = |l: &List<(), u32>| -> BTreeSet<(usize, usize)> { l.edge_references().map(|e| (topo_labels[e.source().index()], topo_labels[e.target().index()])).collect() };
                (f(red), f(clo))
            }
            let r0 = catch(|| {
                let topo = algo::toposort(g0, None).map_err(|_| ()).unwrap();
                let (l, _rev) = algo::tred::dag_to_toposorted_adjacency_list::<_, u32>(g0, &topo);
                let (red, clo) = algo::tred::dag_transitive_reduction_closure(&l);
                let labels: Vec<usize> = topo.iter().map(|&i| g0[i] as usize).collect();
                norm(&red, &clo, &labels)
            });
            if let Some(g1) = g1 {
                let r1 = catch(|| {
                    let topo = algo::toposort(g1, None).map_err(|_| ()).unwrap();
                    let (l, _rev) = algo::tred::dag_to_toposorted_adjacency_list::<_, u32>(g1, &topo);
                    let (red, clo) = algo::tred::dag_transitive_reduction_closure(&l);
                    let labels: Vec<usize> = topo.iter().map(|&i| g1[i] as usize).collect();
                    norm(&red, &clo, &labels)
                });
                match (&r0, &r1) {
                    (Ok(x), Ok(y)) => if x != y { fail!("tred", "differs", "Graph<u8>", "transitive reduction/closure differ: {:?} vs {:?}", x, y); },
                    (Ok(_), Err(p)) => fail!("tred", "panic", "Graph<u8>", "panicked: {}", p),
                    _ => {}
                }
            }
            if let Some(g4) = g4 {
                let r4 = catch(|| {
                    let topo = algo::toposort(g4, None).map_err(|_| ()).unwrap();
                    let (l, _rev) = algo::tred::dag_to_toposorted_adjacency_list::<_, u32>(g4, &topo);
                    let (red, clo) = algo::tred::dag_transitive_reduction_closure(&l);
                    let labels: Vec<usize> = topo.iter().map(|&k| k as usize).collect();
                    norm(&red, &clo, &labels)
                });
                match (&r0, &r4) {
                    (Ok(x), Ok(y)) => if x != y { fail!("tred", "differs", "GraphMap", "transitive reduction/closure differ: {:?} vs {:?}", x, y); },
                    (Ok(_), Err(p)) => fail!("tred", "panic", "GraphMap", "panicked: {}", p),
                    _ => {}
                }
            }
        }
    }
    Ok(())
}

impl_replica_set!(Directed,
    graph: [DfsDefaultReset, DfsPostOrderDefaultReset, DfsMoveTo, HasPathDefaultSpace, TopoDefaultReset, ToposortDefaultSpace, Dfs, Bfs, DfsPostOrder, DepthFirstSearch, Topo, Toposort, ToposortSpace, KosarajuScc, TarjanScc, TarjanSccReused, IsCyclicDirected, HasPath, HasPathSpace, ConnectedComponents, Dominators, Dijkstra, DijkstraGoal, Astar, KShortest, BellmanFord, NegativeCycle, Spfa, FloydWarshall, Mst, GreedyMatching, MaximumMatching, FordFulkerson, PageRank, FeedbackArcSet, SimplePaths, DfsNodeFiltered, DfsEdgeFiltered, DfsBreak, FloydWarshallPath, SccAlias, TopoWithInitials, DfsReversed, BfsReversed, DfsPrune, DfsRecycledMap, DsaturOverUndirectedAdaptor, DijkstraOverUndirectedAdaptor],
    stable: [DfsDefaultReset, DfsPostOrderDefaultReset, DfsMoveTo, HasPathDefaultSpace, TopoDefaultReset, ToposortDefaultSpace, Dfs, Bfs, DfsPostOrder, DepthFirstSearch, Topo, Toposort, ToposortSpace, KosarajuScc, TarjanScc, TarjanSccReused, IsCyclicDirected, HasPath, HasPathSpace, Dominators, Dijkstra, DijkstraGoal, Astar, KShortest, BellmanFord, NegativeCycle, Spfa, Mst, GreedyMatching, MaximumMatching, FordFulkerson, PageRank, FeedbackArcSet, SimplePaths, DfsNodeFiltered, DfsEdgeFiltered, DfsBreak, SccAlias, TopoWithInitials, DfsReversed, BfsReversed, DfsPrune, DfsRecycledMap, DsaturOverUndirectedAdaptor, DijkstraOverUndirectedAdaptor],
    matrix: [DfsDefaultReset, DfsPostOrderDefaultReset, DfsMoveTo, HasPathDefaultSpace, TopoDefaultReset, ToposortDefaultSpace, Dfs, Bfs, DfsPostOrder, DepthFirstSearch, Topo, Toposort, ToposortSpace, KosarajuScc, TarjanScc, TarjanSccReused, IsCyclicDirected, HasPath, HasPathSpace, Dominators, Dijkstra, DijkstraGoal, Astar, KShortest, BellmanFord, NegativeCycle, Spfa, Mst, GreedyMatching, MaximumMatching, PageRank, FeedbackArcSet, SimplePaths, DfsNodeFiltered, DfsEdgeFiltered, DfsBreak, SccAlias, TopoWithInitials, DfsReversed, BfsReversed, DfsPrune, DfsRecycledMap, DsaturOverUndirectedAdaptor, DijkstraOverUndirectedAdaptor],
    gmap: [DfsDefaultReset, DfsPostOrderDefaultReset, DfsMoveTo, HasPathDefaultSpace, TopoDefaultReset, ToposortDefaultSpace, Dfs, Bfs, DfsPostOrder, DepthFirstSearch, Topo, Toposort, ToposortSpace, KosarajuScc, TarjanScc, TarjanSccReused, IsCyclicDirected, HasPath, HasPathSpace, ConnectedComponents, Dominators, Dijkstra, DijkstraGoal, Astar, KShortest, BellmanFord, NegativeCycle, Spfa, FloydWarshall, Mst, GreedyMatching, MaximumMatching, PageRank, SimplePaths, DfsNodeFiltered, DfsEdgeFiltered, DfsBreak, FloydWarshallPath, SccAlias, TopoWithInitials, DfsReversed, BfsReversed, DfsPrune, DsaturOverUndirectedAdaptor, DijkstraOverUndirectedAdaptor],
    csr: [DfsDefaultReset, DfsPostOrderDefaultReset, DfsMoveTo, HasPathDefaultSpace, Dfs, Bfs, DfsPostOrder, DepthFirstSearch, TarjanScc, TarjanSccReused, IsCyclicDirected, HasPath, HasPathSpace, ConnectedComponents, Dominators, Dijkstra, DijkstraGoal, Astar, KShortest, BellmanFord, NegativeCycle, Spfa, FloydWarshall, Mst, GreedyMatching, MaximumMatching, PageRank, DfsNodeFiltered, DfsEdgeFiltered, DfsBreak, FloydWarshallPath, DfsPrune, DfsRecycledMap],
    list: [DfsDefaultReset, DfsPostOrderDefaultReset, DfsMoveTo, HasPathDefaultSpace, Dfs, Bfs, DfsPostOrder, DepthFirstSearch, TarjanScc, TarjanSccReused, IsCyclicDirected, HasPath, HasPathSpace, ConnectedComponents, Dominators, Dijkstra, DijkstraGoal, Astar, KShortest, BellmanFord, NegativeCycle, Spfa, FloydWarshall, Mst, GreedyMatching, MaximumMatching, PageRank, DfsNodeFiltered, DfsEdgeFiltered, DfsBreak, FloydWarshallPath, DfsPrune, DfsRecycledMap]);
impl_replica_set!(Undirected,
    graph: [DfsDefaultReset, DfsPostOrderDefaultReset, DfsMoveTo, HasPathDefaultSpace, Dfs, Bfs, DfsPostOrder, DepthFirstSearch, IsCyclicUndirected, HasPath, HasPathSpace, ConnectedComponents, Bipartite, Dijkstra, DijkstraGoal, Astar, KShortest, BellmanFord, NegativeCycle, Spfa, FloydWarshall, Mst, MstPrim, GreedyMatching, MaximumMatching, ArticulationPoints, Dsatur, MaximalCliques, Graph6, DfsNodeFiltered, DfsEdgeFiltered, DfsBreak, FloydWarshallPath, DfsRecycledMap],
    stable: [DfsDefaultReset, DfsPostOrderDefaultReset, DfsMoveTo, HasPathDefaultSpace, Dfs, Bfs, DfsPostOrder, DepthFirstSearch, IsCyclicUndirected, HasPath, HasPathSpace, Bipartite, Dijkstra, DijkstraGoal, Astar, KShortest, BellmanFord, NegativeCycle, Spfa, Mst, MstPrim, GreedyMatching, MaximumMatching, ArticulationPoints, Dsatur, MaximalCliques, Graph6, DfsNodeFiltered, DfsEdgeFiltered, DfsBreak, DfsRecycledMap],
    matrix: [DfsDefaultReset, DfsPostOrderDefaultReset, DfsMoveTo, HasPathDefaultSpace, Dfs, Bfs, DfsPostOrder, DepthFirstSearch, IsCyclicUndirected, HasPath, HasPathSpace, Bipartite, Dijkstra, DijkstraGoal, Astar, KShortest, BellmanFord, NegativeCycle, Spfa, Mst, MstPrim, GreedyMatching, MaximumMatching, ArticulationPoints, Dsatur, MaximalCliques, Graph6, DfsNodeFiltered, DfsEdgeFiltered, DfsBreak, DfsRecycledMap],
    gmap: [DfsDefaultReset, DfsPostOrderDefaultReset, DfsMoveTo, HasPathDefaultSpace, Dfs, Bfs, DfsPostOrder, DepthFirstSearch, IsCyclicUndirected, HasPath, HasPathSpace, ConnectedComponents, Bipartite, Dijkstra, DijkstraGoal, Astar, KShortest, BellmanFord, NegativeCycle, Spfa, FloydWarshall, Mst, MstPrim, GreedyMatching, MaximumMatching, ArticulationPoints, Dsatur, MaximalCliques, Graph6, DfsNodeFiltered, DfsEdgeFiltered, DfsBreak, FloydWarshallPath],
    csr: [DfsDefaultReset, DfsPostOrderDefaultReset, DfsMoveTo, HasPathDefaultSpace, Dfs, Bfs, DfsPostOrder, DepthFirstSearch, IsCyclicUndirected, HasPath, HasPathSpace, ConnectedComponents, Bipartite, Dijkstra, DijkstraGoal, Astar, KShortest, BellmanFord, NegativeCycle, Spfa, FloydWarshall, Mst, MstPrim, GreedyMatching, MaximumMatching, ArticulationPoints, Dsatur, MaximalCliques, Graph6, DfsNodeFiltered, DfsEdgeFiltered, DfsBreak, FloydWarshallPath, DfsRecycledMap],
    list: [Dfs]);
