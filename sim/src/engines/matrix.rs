//! C04 — `MatrixGraph` stays a faithful simple graph across growth, removal and id reuse.
//! History engine; model = map id -> weight, map (canonical) pair -> weight. Edge
//! operations are only issued between existing nodes (the property's domain).

use super::{Exec, History, OpFeed, Width};
use crate::core::hasher::{set_sim_hasher, SimBuildHasher};
use crate::core::{catch, Acc, Rng, StateHasher, Tier, Violation};
use petgraph::data::Build;
use petgraph::graph::IndexType;
use petgraph::matrix_graph::{MatrixGraph, NodeIndex, NotZero, Nullable};
use petgraph::visit::{EdgeRef, IntoEdgeReferences, IntoNodeIdentifiers, IntoNodeReferences};
use petgraph::{Directed, Direction, EdgeType, Undirected};
use serde::{Deserialize, Serialize};
use std::collections::BTreeMap;

#[derive(Clone, Debug, Serialize, Deserialize)]
pub struct Cfg {
    pub directed: bool,
    pub not_zero: bool,
    pub width: Width,
    pub hasher_seed: u64,
    pub hasher_mode: u8,
    pub cap: Option<usize>,
    /// 0 tiny (<= 4), 1 small (<= 10), 2 wide (<= 70: crosses the 4/8/16/32/64 steps), 3 capacity (u8)
    pub size_class: u8,
    pub fault_permille: u32,
    pub disabled: u32,
    pub obs_seed: u64,
}

#[derive(Clone, Debug, Serialize, Deserialize)]
pub enum Op {
    AddNode { try_: bool, build: bool },
    RemoveNode(usize),
    AddEdge(usize, usize),
    UpdateEdge(usize, usize),
    TryUpdateEdge(usize, usize),
    AddOrUpdateEdge(usize, usize),
    BuildAddEdge(usize, usize),
    BuildUpdateEdge(usize, usize),
    RemoveEdge(usize, usize),
    TryRemoveEdge(usize, usize),
    Clear,
    Extend(Vec<(usize, usize)>),
    FromEdges(Vec<(usize, usize)>),
    SetNodeW { a: usize, how: u8 },
    SetEdgeW { a: usize, b: usize, how: u8 },
    ZeroWeightEdge(usize, usize),
    Clone,
    BulkNodes(usize),
    BulkEdges { k: usize, seed: u64 },
}

impl Op {
    fn kind(&self) -> (&'static str, u8) {
        match self {
            Op::AddNode { try_: false, build: false } => ("add_node", 0),
            Op::AddNode { try_: true, .. } => ("try_add_node", 1),
            Op::AddNode { .. } => ("build_add_node", 2),
            Op::RemoveNode(_) => ("remove_node", 3),
            Op::AddEdge(..) => ("add_edge", 4),
            Op::UpdateEdge(..) => ("update_edge", 5),
            Op::TryUpdateEdge(..) => ("try_update_edge", 6),
            Op::AddOrUpdateEdge(..) => ("add_or_update_edge", 7),
            Op::BuildAddEdge(..) => ("build_add_edge", 8),
            Op::BuildUpdateEdge(..) => ("build_update_edge", 9),
            Op::RemoveEdge(..) => ("remove_edge", 10),
            Op::TryRemoveEdge(..) => ("try_remove_edge", 11),
            Op::Clear => ("clear", 12),
            Op::Extend(_) => ("extend_with_edges", 13),
            Op::FromEdges(_) => ("from_edges", 14),
            Op::SetNodeW { .. } => ("node_weight_mut", 15),
            Op::SetEdgeW { .. } => ("edge_weight_mut", 16),
            Op::ZeroWeightEdge(..) => ("add_edge_zero_weight", 17),
            Op::Clone => ("clone", 18),
            Op::BulkNodes(_) => ("bulk_add_nodes", 19),
            Op::BulkEdges { .. } => ("bulk_add_edges", 20),
        }
    }
}

#[derive(Clone, Default)]
pub struct Model {
    pub directed: bool,
    pub nodes: BTreeMap<usize, u32>,
    pub edges: BTreeMap<(usize, usize), u32>,
    /// 1 + largest id ever handed out since the last clear (ids below it may be vacant)
    pub high_water: usize,
}

impl Model {
    pub fn key(&self, a: usize, b: usize) -> (usize, usize) {
        if self.directed || a <= b {
            (a, b)
        } else {
            (b, a)
        }
    }
    fn weight(&self, a: usize, b: usize) -> Option<u32> {
        self.edges.get(&self.key(a, b)).copied()
    }
    fn succ(&self, a: usize) -> Vec<usize> {
        let mut v = Vec::new();
        for &(x, y) in self.edges.keys() {
            if self.directed {
                if x == a {
                    v.push(y);
                }
            } else if x == a {
                v.push(y);
            } else if y == a {
                v.push(x);
            }
        }
        v
    }
    fn pred(&self, a: usize) -> Vec<usize> {
        if !self.directed {
            return self.succ(a);
        }
        self.edges.keys().filter(|k| k.1 == a).map(|k| k.0).collect()
    }
    fn has_vacancy(&self) -> bool {
        self.nodes.len() != self.high_water || self.nodes.keys().next_back().map(|m| m + 1 != self.nodes.len()).unwrap_or(false)
    }
    fn hash(&self) -> u64 {
        let mut h = StateHasher::new();
        h.add(self.directed as u64);
        for n in self.nodes.keys() {
            h.add(*n as u64);
        }
        h.add(0xFFFF_FFFF);
        for k in self.edges.keys() {
            h.add(((k.0 as u64) << 32) | k.1 as u64);
        }
        h.finish()
    }
}

pub struct MatrixEngine {
    pub visit: bool,
}

impl History for MatrixEngine {
    type Cfg = Cfg;
    type Op = Op;
    fn name(&self) -> &'static str {
        if self.visit {
            "matrix-visit"
        } else {
            "matrix"
        }
    }
    fn rule(&self) -> &'static str {
        "history with >= 3 applied operations, >= 1 edge inserted and >= 1 node removal or id reuse"
    }
    fn gen_cfg(&self, rng: &mut Rng, tier: Tier) -> (Cfg, usize) {
        let width = Width::pick(rng);
        let mut size_class = match rng.below(100) {
            0..=24 => 0,
            25..=74 => 1,
            75..=96 => 2,
            _ => 3,
        };
        if size_class == 3 && width != Width::U8 {
            // wider index types: now and then several hundred nodes (beyond the 256 a u8 graph can
            // reach), with the matrix growing in jumps of every size
            size_class = if rng.chance(1, 3) && !self.visit { 4 } else { 2 };
        }
        let mut disabled = 0u32;
        for k in 5..=18u32 {
            if rng.chance(1, 5) {
                disabled |= 1 << k;
            }
        }
        let base = if tier == Tier::Thorough { 30 } else { 20 };
        let len = match size_class {
            2 => rng.range(20, 120),
            3 | 4 => rng.range(6, 30),
            _ => rng.geometric(1, base, 90),
        };
        (
            Cfg {
                directed: rng.chance(1, 2),
                not_zero: rng.chance(1, 3),
                width,
                hasher_seed: rng.next_u64(),
                hasher_mode: *rng.pick(&[0u8, 0, 0, 1, 2]),
                cap: if rng.chance(1, 2) { Some(*rng.pick(&[0usize, 1, 2, 3, 4, 5, 7, 8, 9, 15, 16, 17, 31, 33, 64])) } else { None },
                size_class,
                fault_permille: *rng.pick(&[0u32, 0, 60, 200]),
                disabled,
                obs_seed: rng.next_u64(),
            },
            len,
        )
    }
    fn execute(&self, cfg: &Cfg, feed: OpFeed<Op>, acc: &mut Acc, ops: &mut Vec<Op>) -> Exec {
        macro_rules! go {
            ($ix:ty) => {
                match (cfg.directed, cfg.not_zero) {
                    (true, false) => run::<Directed, Option<u32>, $ix>(self.name(), self.visit, cfg, feed, acc, ops),
                    (true, true) => run::<Directed, NotZero<u32>, $ix>(self.name(), self.visit, cfg, feed, acc, ops),
                    (false, false) => run::<Undirected, Option<u32>, $ix>(self.name(), self.visit, cfg, feed, acc, ops),
                    (false, true) => run::<Undirected, NotZero<u32>, $ix>(self.name(), self.visit, cfg, feed, acc, ops),
                }
            };
        }
        match cfg.width {
            Width::U8 => go!(u8),
            Width::U16 => go!(u16),
            Width::U32 => go!(u32),
            Width::Usize => go!(usize),
        }
    }
}

pub type MG<Ty, Null, Ix> = MatrixGraph<u32, u32, SimBuildHasher, Ty, Null, Ix>;

fn max_nodes(cfg: &Cfg) -> usize {
    match cfg.size_class {
        0 => 4,
        1 => 10,
        2 => 70,
        3 => 255,
        _ => 600,
    }
}

fn pick_live(rng: &mut Rng, m: &Model) -> Option<usize> {
    if m.nodes.is_empty() {
        return None;
    }
    let ids: Vec<usize> = m.nodes.keys().copied().collect();
    // bias to the highest ids: they sit at the matrix border where growth happens
    if rng.chance(1, 3) {
        let k = ids.len().min(3);
        return Some(ids[ids.len() - 1 - rng.below(k)]);
    }
    Some(ids[rng.below(ids.len())])
}

fn pick_pair(rng: &mut Rng, m: &Model) -> Option<(usize, usize)> {
    if !m.edges.is_empty() && rng.chance(1, 3) {
        let ks: Vec<(usize, usize)> = m.edges.keys().copied().collect();
        let (a, b) = ks[rng.below(ks.len())];
        return Some(if rng.chance(1, 3) { (b, a) } else { (a, b) });
    }
    let a = pick_live(rng, m)?;
    let b = if rng.chance(1, 8) { a } else { pick_live(rng, m)? };
    Some((a, b))
}

fn gen_op(rng: &mut Rng, cfg: &Cfg, m: &Model, step: usize) -> Op {
    if cfg.size_class == 3 && step == 0 {
        return Op::BulkNodes(rng.range(248, 256));
    }
    if cfg.size_class == 4 && step == 0 {
        return Op::BulkNodes(*rng.pick(&[258usize, 300, 400, 520]));
    }
    if cfg.size_class == 4 && step == 1 {
        return Op::BulkEdges { k: rng.range(5, 40), seed: rng.next_u64() };
    }
    if cfg.size_class >= 2 && step == 1 {
        return Op::BulkEdges { k: rng.range(5, 60), seed: rng.next_u64() };
    }
    let n = m.nodes.len();
    let maxn = max_nodes(cfg);
    for _ in 0..30 {
        let op = match rng.below(100) {
            0..=17 => {
                if n >= maxn && cfg.size_class != 3 {
                    continue;
                }
                match rng.below(5) {
                    0 => Op::AddNode { try_: true, build: false },
                    1 => Op::AddNode { try_: false, build: true },
                    _ => Op::AddNode { try_: false, build: false },
                }
            }
            18..=27 => {
                let bad = (rng.below(1000) as u32) < cfg.fault_permille;
                if bad {
                    Op::RemoveNode(*rng.pick(&[m.high_water, m.high_water + 1, m.high_water + 5]))
                } else {
                    match pick_live(rng, m) {
                        Some(a) => Op::RemoveNode(a),
                        None => continue,
                    }
                }
            }
            28..=72 => {
                let (a, b) = match pick_pair(rng, m) {
                    Some(p) => p,
                    None => continue,
                };
                let exists = m.weight(a, b).is_some();
                match rng.below(10) {
                    0..=3 => {
                        // add_edge on an existing edge is a documented panic: only as a fault
                        if exists && (rng.below(1000) as u32) >= cfg.fault_permille {
                            Op::UpdateEdge(a, b)
                        } else {
                            Op::AddEdge(a, b)
                        }
                    }
                    4..=5 => Op::UpdateEdge(a, b),
                    6 => Op::TryUpdateEdge(a, b),
                    7 => Op::AddOrUpdateEdge(a, b),
                    8 => Op::BuildAddEdge(a, b),
                    _ => Op::BuildUpdateEdge(a, b),
                }
            }
            73..=84 => {
                let (a, b) = match pick_pair(rng, m) {
                    Some(p) => p,
                    None => continue,
                };
                let exists = m.weight(a, b).is_some();
                if rng.chance(1, 2) {
                    Op::TryRemoveEdge(a, b)
                } else if exists || (rng.below(1000) as u32) < cfg.fault_permille {
                    Op::RemoveEdge(a, b)
                } else {
                    Op::TryRemoveEdge(a, b)
                }
            }
            85 => {
                if rng.chance(1, 3) {
                    Op::Clear
                } else {
                    continue;
                }
            }
            86..=88 => {
                if m.has_vacancy() {
                    continue;
                }
                let hi = (n + rng.below(4)).max(1);
                let k = rng.below(5);
                Op::Extend((0..k).map(|_| (rng.below(hi), rng.below(hi))).collect())
            }
            89 => {
                if step > 4 && !rng.chance(1, 4) {
                    continue;
                }
                let hi = rng.range(1, 7);
                let k = rng.below(6);
                Op::FromEdges((0..k).map(|_| (rng.below(hi), rng.below(hi))).collect())
            }
            90..=92 => match pick_live(rng, m) {
                Some(a) => Op::SetNodeW { a, how: rng.below(3) as u8 },
                None => continue,
            },
            93..=95 => match pick_pair(rng, m) {
                Some((a, b)) => {
                    let exists = m.weight(a, b).is_some();
                    let how = rng.below(3) as u8;
                    if !exists && how != 1 && (rng.below(1000) as u32) >= cfg.fault_permille {
                        Op::SetEdgeW { a, b, how: 1 }
                    } else {
                        Op::SetEdgeW { a, b, how }
                    }
                }
                None => continue,
            },
            96 => {
                if !cfg.not_zero || cfg.fault_permille == 0 {
                    continue;
                }
                match pick_pair(rng, m) {
                    Some((a, b)) => Op::ZeroWeightEdge(a, b),
                    None => continue,
                }
            }
            97 => Op::Clone,
            _ => Op::AddNode { try_: false, build: false },
        };
        if cfg.disabled & (1 << op.kind().1) != 0 {
            continue;
        }
        return op;
    }
    Op::AddNode { try_: false, build: false }
}

fn sorted<T: Ord + Clone>(v: &[T]) -> Vec<T> {
    let mut v = v.to_vec();
    v.sort();
    v
}

trait DirExt<Null: Nullable<Wrapped = u32>, Ix: IndexType>: EdgeType + Sized {
    /// (neighbors_directed in, edges_directed out, edges_directed in) if the type has them
    fn directed_views(g: &MG<Self, Null, Ix>, a: usize) -> Option<(Vec<usize>, Vec<usize>, Vec<(usize, usize, u32)>, Vec<(usize, usize, u32)>)>;
    fn visit(g: &MG<Self, Null, Ix>, seed: u64) -> Result<(), super::visit::VErr>;
}
impl<Null: Nullable<Wrapped = u32>, Ix: IndexType> DirExt<Null, Ix> for Directed {
    fn directed_views(g: &MG<Self, Null, Ix>, a: usize) -> Option<(Vec<usize>, Vec<usize>, Vec<(usize, usize, u32)>, Vec<(usize, usize, u32)>)> {
        let ix = NodeIndex::<Ix>::new(a);
        Some((
            g.neighbors_directed(ix, Direction::Outgoing).map(|n| n.index()).collect(),
            g.neighbors_directed(ix, Direction::Incoming).map(|n| n.index()).collect(),
            g.edges_directed(ix, Direction::Outgoing).map(|(x, y, w)| (x.index(), y.index(), *w)).collect(),
            g.edges_directed(ix, Direction::Incoming).map(|(x, y, w)| (x.index(), y.index(), *w)).collect(),
        ))
    }
    fn visit(g: &MG<Self, Null, Ix>, seed: u64) -> Result<(), super::visit::VErr> {
        super::visit::check_matrix_directed(g, seed)
    }
}
impl<Null: Nullable<Wrapped = u32>, Ix: IndexType> DirExt<Null, Ix> for Undirected {
    fn directed_views(_g: &MG<Self, Null, Ix>, _a: usize) -> Option<(Vec<usize>, Vec<usize>, Vec<(usize, usize, u32)>, Vec<(usize, usize, u32)>)> {
        None
    }
    fn visit(g: &MG<Self, Null, Ix>, seed: u64) -> Result<(), super::visit::VErr> {
        super::visit::check_matrix_undirected(g, seed)
    }
}

/// `NotZero` is not `Clone`, so only the `Option` flavour exercises `MatrixGraph::clone`.
pub trait NullExt: Nullable<Wrapped = u32> + Sized {
    fn clone_graph<Ty: EdgeType + Clone, Ix: IndexType>(g: &MG<Ty, Self, Ix>) -> Option<MG<Ty, Self, Ix>>;
}
impl NullExt for Option<u32> {
    fn clone_graph<Ty: EdgeType + Clone, Ix: IndexType>(g: &MG<Ty, Self, Ix>) -> Option<MG<Ty, Self, Ix>> {
        Some(g.clone())
    }
}
impl NullExt for NotZero<u32> {
    fn clone_graph<Ty: EdgeType + Clone, Ix: IndexType>(_g: &MG<Ty, Self, Ix>) -> Option<MG<Ty, Self, Ix>> {
        None
    }
}

fn observe<Ty: EdgeType + DirExt<Null, Ix>, Null: Nullable<Wrapped = u32>, Ix: IndexType>(g: &MG<Ty, Null, Ix>, m: &Model, obs_rng: &mut Rng) -> Result<(), (&'static str, String)> {
    macro_rules! ensure {
        ($name:expr, $cond:expr, $($arg:tt)*) => {
            if !($cond) { return Err(($name, format!($($arg)*))); }
        };
    }
    let ix = |a: usize| NodeIndex::<Ix>::new(a);
    ensure!("is_directed", g.is_directed() == m.directed, "is_directed() = {}", g.is_directed());
    ensure!("node_count", g.node_count() == m.nodes.len(), "node_count() = {}, model {}", g.node_count(), m.nodes.len());
    ensure!("edge_count", g.edge_count() == m.edges.len(), "edge_count() = {}, model has {} edges", g.edge_count(), m.edges.len());
    let ids: Vec<usize> = g.node_identifiers().map(|n| n.index()).collect();
    let mids: Vec<usize> = m.nodes.keys().copied().collect();
    ensure!("node_identifiers", sorted(&ids) == mids, "node_identifiers() = {:?}, model {:?}", ids, mids);
    let refs: Vec<(usize, u32)> = g.node_references().map(|(n, w)| (n.index(), *w)).collect();
    let mrefs: Vec<(usize, u32)> = m.nodes.iter().map(|(k, w)| (*k, *w)).collect();
    ensure!("node_references", sorted(&refs) == mrefs, "node_references() = {:?}, model {:?}", refs, mrefs);
    let max_index = <Ix as IndexType>::max().index();
    for a in 0..(m.high_water + 2).min(max_index.saturating_add(1)) {
        let w = g.get_node_weight(ix(a)).copied();
        ensure!("get_node_weight", w == m.nodes.get(&a).copied(), "get_node_weight({}) = {:?}, model {:?}", a, w, m.nodes.get(&a));
    }
    for (&a, &w) in &m.nodes {
        ensure!("node_weight", *g.node_weight(ix(a)) == w && g[ix(a)] == w, "node_weight({}) = {}, model {}", a, g.node_weight(ix(a)), w);
    }
    let er: Vec<(usize, usize, u32)> = g.edge_references().map(|e| { let (a, b) = m.key(e.source().index(), e.target().index()); (a, b, *e.weight()) }).collect();
    let mer: Vec<(usize, usize, u32)> = m.edges.iter().map(|(k, w)| (k.0, k.1, *w)).collect();
    ensure!("edge_references", sorted(&er) == mer, "edge_references() = {:?}, model {:?}", er, mer);
    // per node
    let probe: Vec<usize> = if mids.len() <= 16 { mids.clone() } else { (0..16).map(|_| mids[obs_rng.below(mids.len())]).collect() };
    for &a in &probe {
        let succ = m.succ(a);
        let nb: Vec<usize> = g.neighbors(ix(a)).map(|n| n.index()).collect();
        ensure!("neighbors", sorted(&nb) == sorted(&succ), "neighbors({}) = {:?}, model {:?}", a, nb, succ);
        let es: Vec<(usize, usize, u32)> = g.edges(ix(a)).map(|(x, y, w)| (x.index(), y.index(), *w)).collect();
        let exp: Vec<(usize, usize, u32)> = succ.iter().map(|&b| (a, b, m.weight(a, b).unwrap())).collect();
        ensure!("edges", sorted(&es) == sorted(&exp), "edges({}) = {:?}, model (queried node first) {:?}", a, es, exp);
        if let Some((no, ni, eo, ei)) = Ty::directed_views(g, a) {
            let pred = m.pred(a);
            ensure!("neighbors_directed_outgoing", sorted(&no) == sorted(&succ), "neighbors_directed({}, Outgoing) = {:?}, model {:?}", a, no, succ);
            ensure!("neighbors_directed_incoming", sorted(&ni) == sorted(&pred), "neighbors_directed({}, Incoming) = {:?}, model {:?}", a, ni, pred);
            ensure!("edges_directed_outgoing", sorted(&eo) == sorted(&exp), "edges_directed({}, Outgoing) = {:?}, model {:?}", a, eo, exp);
            // the set of incoming edges (orientation of the reported pair is C06's business)
            let got: Vec<(usize, u32)> = ei.iter().map(|&(x, y, w)| (if x == a { y } else { x }, w)).collect();
            let expi: Vec<(usize, u32)> = pred.iter().map(|&b| (b, m.weight(b, a).unwrap())).collect();
            ensure!("edges_directed_incoming", sorted(&got) == sorted(&expi), "edges_directed({}, Incoming) = {:?}, model predecessors {:?}", a, ei, expi);
        }
    }
    if obs_rng.chance(1, 3) {
        use crate::engines::iter_protocol as ip;
        let salt = obs_rng.next_u64();
        let res = (|| -> Result<(), String> {
            ip("node_identifiers()", || g.node_identifiers(), |n| n.index(), salt)?;
            ip("node_references()", || g.node_references(), |r| (r.0.index(), *r.1), salt)?;
            ip("edge_references()", || g.edge_references(), |e| (e.source().index(), e.target().index(), *e.weight()), salt)?;
            if !mids.is_empty() {
                let a = mids[(salt % mids.len() as u64) as usize];
                ip(&format!("neighbors({})", a), || g.neighbors(ix(a)), |n| n.index(), salt)?;
                ip(&format!("edges({})", a), || g.edges(ix(a)), |e| (e.0.index(), e.1.index(), *e.2), salt)?;
            }
            Ok(())
        })();
        if let Err(e) = res {
            return Err(("iterator-protocol", e));
        }
    }
    // pairs
    let pairs: Vec<(usize, usize)> = if mids.len() <= 12 {
        mids.iter().flat_map(|&a| mids.iter().map(move |&b| (a, b))).collect()
    } else {
        let mut v: Vec<(usize, usize)> = (0..120).map(|_| (mids[obs_rng.below(mids.len())], mids[obs_rng.below(mids.len())])).collect();
        for k in m.edges.keys().take(60) {
            v.push(*k);
            v.push((k.1, k.0));
        }
        v
    };
    for (a, b) in pairs {
        let w = m.weight(a, b);
        ensure!("has_edge", g.has_edge(ix(a), ix(b)) == w.is_some(), "has_edge({}, {}) = {}, model weight {:?}", a, b, g.has_edge(ix(a), ix(b)), w);
        ensure!("get_edge_weight", g.get_edge_weight(ix(a), ix(b)).copied() == w, "get_edge_weight({}, {}) = {:?}, model {:?}", a, b, g.get_edge_weight(ix(a), ix(b)), w);
        if let Some(w) = w {
            ensure!("edge_weight", *g.edge_weight(ix(a), ix(b)) == w && g[(ix(a), ix(b))] == w, "edge_weight({}, {}) = {}, model {}", a, b, g.edge_weight(ix(a), ix(b)), w);
        }
    }
    Ok(())
}

fn run<Ty: EdgeType + DirExt<Null, Ix> + Clone, Null: NullExt, Ix: IndexType>(name: &'static str, visit: bool, cfg: &Cfg, mut feed: OpFeed<Op>, acc: &mut Acc, ops: &mut Vec<Op>) -> Exec {
    set_sim_hasher(cfg.hasher_seed, cfg.hasher_mode);
    let hasher = SimBuildHasher { seed: cfg.hasher_seed, mode: cfg.hasher_mode };
    let max_index = <Ix as IndexType>::max().index();
    let mut g: MG<Ty, Null, Ix> = match cfg.cap {
        Some(c) => MatrixGraph::with_capacity_and_hasher(c.min(max_index.saturating_sub(1)), hasher),
        None => MatrixGraph::default(),
    };
    let mut m = Model { directed: Ty::is_directed(), ..Default::default() };
    let mut next_w = 100u32;
    let mut step = 0usize;
    let (mut edges_added, mut removals, mut reuses) = (0usize, 0usize, 0usize);
    let mut obs_rng = Rng::new(cfg.obs_seed);
    let ix = |a: usize| NodeIndex::<Ix>::new(a.min(max_index));

    macro_rules! nontrivial {
        () => {
            step >= 3 && edges_added >= 1 && (removals + reuses) >= 1
        };
    }
    macro_rules! bail {
        ($kind:expr, $check:expr, $($arg:tt)*) => {{
            return Exec { violation: Some(Violation::new(format!("{}/{}/{}", name, $kind, $check), format!($($arg)*), step)), nontrivial: nontrivial!() };
        }};
    }
    let mut fresh = || {
        next_w += 1;
        next_w
    };

    while let Some(op) = feed.next(|rng| gen_op(rng, cfg, &m, step)) {
        ops.push(op.clone());
        let (kind, code) = op.kind();
        acc.op(kind, code);
        let live = |a: usize| m.nodes.contains_key(&a);
        let limit = max_index != usize::MAX && m.nodes.len() >= max_index;
        // matrix capacity before the op, to probe growth
        match &op {
            Op::AddNode { try_, build } => {
                let w = fresh();
                if limit {
                    acc.fault("index_limit_nodes");
                }
                let r: Result<Result<usize, ()>, String> = if *try_ {
                    catch(|| g.try_add_node(w).map(|i| i.index()).map_err(|_| ()))
                } else if *build {
                    catch(|| Build::add_node(&mut g, w).index()).map(Ok)
                } else {
                    catch(|| g.add_node(w).index()).map(Ok)
                };
                match (r, limit) {
                    (Ok(Ok(id)), false) => {
                        if live(id) {
                            bail!(kind, "index-live", "new node got id {} which is live", id);
                        }
                        if id > m.high_water || id >= max_index {
                            bail!(kind, "index-range", "new node got id {} (ids below {} were handed out so far)", id, m.high_water);
                        }
                        if id < m.high_water {
                            reuses += 1;
                            acc.probe("matrix_id_reused");
                        }
                        m.nodes.insert(id, w);
                        m.high_water = m.high_water.max(id + 1);
                    }
                    (Ok(Ok(id)), true) => bail!(kind, "limit-ignored", "node id {} handed out although all {} ids of the index type are in use", id, max_index),
                    (Ok(Err(())), true) => acc.probe("matrix_node_limit_hit"),
                    (Ok(Err(())), false) => bail!(kind, "spurious-error", "try_add_node failed with {} of {} ids in use", m.nodes.len(), max_index),
                    (Err(_), true) if !*try_ => {
                        acc.fault("documented_panic");
                        acc.probe("matrix_node_limit_hit");
                    }
                    (Err(p), _) => bail!(kind, "panic", "{} panicked: {}", kind, p),
                }
            }
            Op::RemoveNode(a) => {
                let a = (*a).min(max_index);
                let exp = m.nodes.get(&a).copied();
                if exp.is_none() {
                    acc.fault("absent_node");
                }
                match (catch(|| g.remove_node(ix(a))), exp) {
                    (Ok(w), Some(e)) => {
                        if w != e {
                            bail!(kind, "result", "remove_node({}) returned weight {}, model {}", a, w, e);
                        }
                        let inc = m.edges.keys().filter(|k| k.0 == a || k.1 == a).count();
                        acc.probe_if(inc > 0, "matrix_removed_node_with_edges");
                        m.nodes.remove(&a);
                        m.edges.retain(|k, _| k.0 != a && k.1 != a);
                        removals += 1;
                    }
                    (Err(_), None) => acc.fault("documented_panic"),
                    (Ok(w), None) => bail!(kind, "missing-panic", "remove_node({}) returned {} although the node does not exist", a, w),
                    (Err(p), Some(_)) => bail!(kind, "panic", "remove_node({}) panicked on a live node: {}", a, p),
                }
            }
            Op::AddEdge(a, b) | Op::UpdateEdge(a, b) | Op::TryUpdateEdge(a, b) | Op::AddOrUpdateEdge(a, b) | Op::BuildAddEdge(a, b) | Op::BuildUpdateEdge(a, b) => {
                let (a, b) = (*a, *b);
                if !live(a) || !live(b) {
                    acc.probe("matrix_edge_op_skipped_absent_node");
                } else {
                    let w = fresh();
                    let old = m.weight(a, b);
                    let r: Result<Result<Option<Option<u32>>, String>, String> = match &op {
                        Op::AddEdge(..) => catch(|| { g.add_edge(ix(a), ix(b), w); Ok(None) }),
                        Op::UpdateEdge(..) => catch(|| Ok(Some(g.update_edge(ix(a), ix(b), w)))),
                        Op::TryUpdateEdge(..) => catch(|| g.try_update_edge(ix(a), ix(b), w).map(Some).map_err(|e| format!("{:?}", e))),
                        Op::AddOrUpdateEdge(..) => catch(|| g.add_or_update_edge(ix(a), ix(b), w).map(Some).map_err(|e| format!("{:?}", e))),
                        Op::BuildAddEdge(..) => catch(|| {
                            let r = Build::add_edge(&mut g, ix(a), ix(b), w);
                            Ok(Some(r.map(|_| 0)))
                        }),
                        _ => catch(|| {
                            let _ = Build::update_edge(&mut g, ix(a), ix(b), w);
                            Ok(None)
                        }),
                    };
                    let is_add = matches!(op, Op::AddEdge(..));
                    let is_build_add = matches!(op, Op::BuildAddEdge(..));
                    match r {
                        Err(p) => {
                            if is_add && old.is_some() {
                                // documented panic: "Panics if an edge already exists"; the new
                                // weight has been stored by then (update-then-assert), which the
                                // documentation does not exclude: resynchronise from the graph
                                acc.fault("documented_panic");
                                let cur = catch(|| g.get_edge_weight(ix(a), ix(b)).copied()).ok().flatten();
                                match cur {
                                    Some(c) if c == w || Some(c) == old => {
                                        let k = m.key(a, b);
                                        m.edges.insert(k, c);
                                    }
                                    other => bail!(kind, "edge-lost", "add_edge({}, {}) on an existing edge panicked and left weight {:?} (was {:?})", a, b, other, old),
                                }
                            } else {
                                bail!(kind, "panic", "{}({}, {}) panicked between existing nodes: {}", kind, a, b, p);
                            }
                        }
                        Ok(Err(e)) => bail!(kind, "spurious-error", "{}({}, {}) returned {} between existing nodes", kind, a, b, e),
                        Ok(Ok(ret)) => {
                            if is_add && old.is_some() {
                                bail!(kind, "missing-panic", "add_edge({}, {}) returned although the edge exists", a, b);
                            }
                            if is_build_add {
                                let got_some = matches!(ret, Some(Some(_)));
                                if got_some == old.is_some() {
                                    bail!(kind, "result", "Build::add_edge({}, {}) returned {} but the edge {}", a, b, if got_some { "Some" } else { "None" }, if old.is_some() { "existed" } else { "did not exist" });
                                }
                            } else if let Some(prev) = ret {
                                if prev != old {
                                    bail!(kind, "result", "{}({}, {}) returned previous weight {:?}, model {:?}", kind, a, b, prev, old);
                                }
                            }
                            if !(is_build_add && old.is_some()) {
                                let k = m.key(a, b);
                                m.edges.insert(k, w);
                                if old.is_none() {
                                    edges_added += 1;
                                }
                            }
                            acc.probe_if(a == b, "matrix_self_loop");
                        }
                    }
                }
            }
            Op::RemoveEdge(a, b) | Op::TryRemoveEdge(a, b) => {
                let (a, b) = (*a, *b);
                if !live(a) || !live(b) {
                    acc.probe("matrix_edge_op_skipped_absent_node");
                } else {
                    let old = m.weight(a, b);
                    if old.is_none() {
                        acc.fault("absent_edge");
                    }
                    if matches!(op, Op::TryRemoveEdge(..)) {
                        match catch(|| g.try_remove_edge(ix(a), ix(b))) {
                            Ok(r) => {
                                if r != old {
                                    bail!(kind, "result", "try_remove_edge({}, {}) = {:?}, model {:?}", a, b, r, old);
                                }
                            }
                            Err(p) => bail!(kind, "panic", "try_remove_edge({}, {}) panicked: {}", a, b, p),
                        }
                    } else {
                        match (catch(|| g.remove_edge(ix(a), ix(b))), old) {
                            (Ok(r), Some(o)) => {
                                if r != o {
                                    bail!(kind, "result", "remove_edge({}, {}) = {}, model {}", a, b, r, o);
                                }
                            }
                            (Err(_), None) => acc.fault("documented_panic"),
                            (Ok(r), None) => bail!(kind, "missing-panic", "remove_edge({}, {}) returned {} although there is no such edge", a, b, r),
                            (Err(p), Some(_)) => bail!(kind, "panic", "remove_edge({}, {}) panicked on an existing edge: {}", a, b, p),
                        }
                    }
                    if old.is_some() {
                        let k = m.key(a, b);
                        m.edges.remove(&k);
                        removals += 1;
                    }
                }
            }
            Op::Clear => {
                if let Err(p) = catch(|| g.clear()) {
                    bail!(kind, "panic", "clear panicked: {}", p);
                }
                m.nodes.clear();
                m.edges.clear();
                m.high_water = 0;
            }
            Op::Extend(list) | Op::FromEdges(list) => {
                let from_scratch = matches!(op, Op::FromEdges(_));
                let mut t = if from_scratch { Model { directed: m.directed, ..Default::default() } } else { m.clone() };
                let cap = 200usize.min(max_index.saturating_sub(1));
                let list: Vec<(usize, usize)> = list.iter().map(|&(a, b)| (a.min(cap), b.min(cap))).collect();
                // domain: no vacancies (extend numbers nodes 0..n), no duplicate edge (add_edge panics)
                let mut ok = !t.has_vacancy();
                let mut ws = Vec::new();
                if ok {
                    for &(a, b) in &list {
                        let nx = a.max(b);
                        while nx >= t.nodes.len() {
                            let id = t.nodes.len();
                            t.nodes.insert(id, 0);
                            t.high_water = id + 1;
                        }
                        if t.weight(a, b).is_some() {
                            ok = false;
                            break;
                        }
                        let w = fresh();
                        let k = t.key(a, b);
                        t.edges.insert(k, w);
                        ws.push((a, b, w));
                    }
                }
                if !ok || (max_index != usize::MAX && t.nodes.len() >= max_index) {
                    acc.probe("matrix_extend_skipped_outside_domain");
                } else {
                    let r = if from_scratch {
                        catch(|| g = MatrixGraph::from_edges(ws.iter().map(|&(a, b, w)| (ix(a), ix(b), w))))
                    } else {
                        catch(|| g.extend_with_edges(ws.iter().map(|&(a, b, w)| (ix(a), ix(b), w))))
                    };
                    if let Err(p) = r {
                        bail!(kind, "panic", "{} panicked: {}", kind, p);
                    }
                    // auto-created nodes carry Default weights: give them unique ones
                    for (id, w) in t.nodes.iter_mut() {
                        if *w == 0 {
                            let nw = fresh();
                            match catch(|| g.get_node_weight_mut(ix(*id)).map(|x| *x = nw).is_some()) {
                                Ok(true) => *w = nw,
                                Ok(false) => bail!(kind, "node-missing", "{} should have created node {}", kind, id),
                                Err(p) => bail!(kind, "panic", "get_node_weight_mut({}) panicked: {}", id, p),
                            }
                        }
                    }
                    edges_added += ws.len();
                    m = t;
                }
            }
            Op::SetNodeW { a, how } => {
                let a = *a;
                if !live(a) {
                    acc.probe("matrix_edge_op_skipped_absent_node");
                } else {
                    let w = fresh();
                    let r = match how % 3 {
                        0 => catch(|| *g.node_weight_mut(ix(a)) = w),
                        1 => catch(|| { if let Some(x) = g.get_node_weight_mut(ix(a)) { *x = w } else { panic!("get_node_weight_mut returned None for a live node") } }),
                        _ => catch(|| g[ix(a)] = w),
                    };
                    if let Err(p) = r {
                        bail!(kind, "panic", "node weight write ({}) on live node {} panicked: {}", how, a, p);
                    }
                    m.nodes.insert(a, w);
                }
            }
            Op::SetEdgeW { a, b, how } => {
                let (a, b) = (*a, *b);
                if !live(a) || !live(b) {
                    acc.probe("matrix_edge_op_skipped_absent_node");
                } else {
                    let w = fresh();
                    let exists = m.weight(a, b).is_some();
                    if !exists {
                        acc.fault("absent_edge");
                    }
                    let r: Result<bool, String> = match how % 3 {
                        0 => catch(|| { *g.edge_weight_mut(ix(a), ix(b)) = w; true }),
                        1 => catch(|| g.get_edge_weight_mut(ix(a), ix(b)).map(|x| *x = w).is_some()),
                        _ => catch(|| { g[(ix(a), ix(b))] = w; true }),
                    };
                    match (r, exists) {
                        (Ok(true), true) => {
                            let k = m.key(a, b);
                            m.edges.insert(k, w);
                        }
                        (Ok(false), false) => {}
                        (Err(_), false) if how % 3 != 1 => acc.fault("documented_panic"),
                        (Ok(x), _) => bail!(kind, "result", "edge weight write ({}) on ({}, {}) found={} but model exists={}", how, a, b, x, exists),
                        (Err(p), _) => bail!(kind, "panic", "edge weight write ({}) on ({}, {}) panicked: {}", how, a, b, p),
                    }
                }
            }
            Op::ZeroWeightEdge(a, b) => {
                let (a, b) = (*a, *b);
                if !cfg.not_zero || !live(a) || !live(b) || m.weight(a, b).is_some() {
                    acc.probe("matrix_edge_op_skipped_absent_node");
                } else {
                    acc.fault("zero_weight_under_not_zero");
                    match catch(|| g.update_edge(ix(a), ix(b), 0)) {
                        Err(_) => acc.fault("documented_panic"),
                        Ok(_) => bail!(kind, "missing-panic", "a zero weight was accepted by a NotZero matrix for ({}, {})", a, b),
                    }
                }
            }
            Op::Clone => {
                if let Some(c) = Null::clone_graph(&g) {
                    g = c;
                }
            }
            Op::BulkNodes(k) => {
                for _ in 0..(*k).min(600) {
                    if max_index != usize::MAX && m.nodes.len() >= max_index {
                        break;
                    }
                    let w = fresh();
                    match catch(|| g.try_add_node(w).map(|i| i.index()).ok()) {
                        Ok(Some(id)) => {
                            if m.nodes.contains_key(&id) || id > m.high_water {
                                bail!(kind, "index", "bulk add_node returned id {}", id);
                            }
                            m.nodes.insert(id, w);
                            m.high_water = m.high_water.max(id + 1);
                        }
                        Ok(None) => bail!(kind, "spurious-error", "try_add_node failed with {} nodes", m.nodes.len()),
                        Err(p) => bail!(kind, "panic", "try_add_node panicked: {}", p),
                    }
                }
                acc.probe_if(max_index != usize::MAX && m.nodes.len() >= max_index, "matrix_node_index_space_filled");
            }
            Op::BulkEdges { k, seed } => {
                let mut r = Rng::new(*seed);
                let ids: Vec<usize> = m.nodes.keys().copied().collect();
                if !ids.is_empty() {
                    // in a large graph the endpoints come from a growing prefix of the ids, so the
                    // matrix is extended in several jumps of different sizes instead of one
                    let stride = 1 + r.below(48);
                    for j in 0..(*k).min(200) {
                        let lim = if ids.len() > 256 { (4 + j * stride).min(ids.len()) } else { ids.len() };
                        let a = ids[r.below(lim)];
                        let b = ids[r.below(lim)];
                        let w = fresh();
                        let old = m.weight(a, b);
                        match catch(|| g.update_edge(ix(a), ix(b), w)) {
                            Ok(prev) => {
                                if prev != old {
                                    bail!(kind, "result", "update_edge({}, {}) returned {:?}, model {:?}", a, b, prev, old);
                                }
                                let key = m.key(a, b);
                                m.edges.insert(key, w);
                                if old.is_none() {
                                    edges_added += 1;
                                }
                            }
                            Err(p) => bail!(kind, "panic", "update_edge({}, {}) panicked: {}", a, b, p),
                        }
                    }
                }
            }
        }
        acc.probe_if(m.nodes.len() > 4, "matrix_more_than_4_nodes");
        acc.probe_if(m.nodes.len() > 16, "matrix_more_than_16_nodes");
        acc.probe_if(m.nodes.len() > 64, "matrix_more_than_64_nodes");
        if !visit {
            match catch(|| observe::<Ty, Null, Ix>(&g, &m, &mut obs_rng)) {
                Ok(Ok(())) => {}
                Ok(Err((c, d))) => bail!(kind, c, "{}", d),
                Err(p) => bail!(kind, "observe-panic", "a query panicked after {}: {}", kind, p),
            }
        } else {
            // C06 mode: the model only drives generation; structural disagreement with it is
            // C04's business (the run is abandoned), the visit invariant is what is checked.
            if m.nodes.len() <= 14 || obs_rng.chance(1, 6) {
                match catch(|| Ty::visit(&g, cfg.obs_seed ^ step as u64)) {
                    Ok(Ok(())) => {}
                    Ok(Err((c, d))) => bail!("visit", c, "{}", d),
                    Err(p) => bail!("visit", "panic", "a visit-trait call panicked after {}: {}", kind, p),
                }
                acc.probe_if(m.has_vacancy(), "visit_checked_state_with_node_vacancies");
            }
            let agrees = catch(|| observe::<Ty, Null, Ix>(&g, &m, &mut obs_rng)).map(|r| r.is_ok()).unwrap_or(false);
            if !agrees {
                acc.probe("visit_run_discarded_model_mismatch");
                return Exec { violation: None, nontrivial: false };
            }
        }
        acc.state(m.hash());
        step += 1;
    }
    if cfg.obs_seed % 4 == 1 && m.high_water <= 40 {
        // the final graph once more with NotZero slots over other weight types: every weight that
        // is not exactly zero is an edge, however small or negative
        acc.probe("matrix_notzero_weight_types_mirror");
        let r = catch(|| -> Result<(), (&'static str, String)> {
            notzero_mirror::<Ty, f64>(&m, "f64", &[1e-18, -1e-300, f64::MIN_POSITIVE, 5e-324, 1.0, -0.5, 1e300, f64::EPSILON / 4.0, -f64::EPSILON / 3.0, f64::INFINITY])?;
            notzero_mirror::<Ty, f32>(&m, "f32", &[1e-20, -1e-38, f32::MIN_POSITIVE, 1e-45, 1.0, -0.5, 1e38, f32::EPSILON / 4.0, -f32::EPSILON / 3.0, f32::NEG_INFINITY])?;
            notzero_mirror::<Ty, i64>(&m, "i64", &[1, -1, i64::MIN, i64::MAX, 2, -2, 1 << 40, -(1 << 33), 255, 256])?;
            notzero_mirror::<Ty, i8>(&m, "i8", &[1, -1, i8::MIN, i8::MAX, 2, -2, 64, -64, 100, -100])
        });
        match r {
            Ok(Ok(())) => {}
            Ok(Err((c, d))) => bail!("notzero_weight_types", c, "{}", d),
            Err(p) => bail!("notzero_weight_types", "panic", "a MatrixGraph with NotZero slots holding the final graph of this run panicked: {}", p),
        }
    }
    Exec { violation: None, nontrivial: nontrivial!() }
}

fn notzero_mirror<Ty: EdgeType, W>(m: &Model, tname: &str, table: &[W]) -> Result<(), (&'static str, String)>
where
    W: petgraph::matrix_graph::Zero + Copy + PartialEq + std::fmt::Debug,
{
    macro_rules! ensure {
        ($name:expr, $cond:expr, $($arg:tt)*) => {
            if !($cond) { return Err(($name, format!("[NotZero<{}>] {}", tname, format!($($arg)*)))); }
        };
    }
    let mut g: MatrixGraph<u32, W, SimBuildHasher, Ty, NotZero<W>, u16> = MatrixGraph::with_capacity_and_hasher(0, SimBuildHasher { seed: 7, mode: 0 });
    let ix = |a: usize| NodeIndex::<u16>::new(a);
    for a in 0..m.high_water {
        g.add_node(a as u32);
    }
    for a in 0..m.high_water {
        if !m.nodes.contains_key(&a) {
            g.remove_node(ix(a));
        }
    }
    let wt = |w: u32| table[(w as usize) % table.len()];
    for (&(a, b), &w) in &m.edges {
        g.add_edge(ix(a), ix(b), wt(w));
    }
    let check = |g: &MatrixGraph<u32, W, SimBuildHasher, Ty, NotZero<W>, u16>, wt: &dyn Fn(u32) -> W, stage: &str| -> Result<(), (&'static str, String)> {
        ensure!("edge_count", g.edge_count() == m.edges.len(), "{}: edge_count() = {}, expected {}", stage, g.edge_count(), m.edges.len());
        let listed = g.edge_references().count();
        ensure!("edge_references", listed == m.edges.len(), "{}: edge_references() yields {} edges, expected {}", stage, listed, m.edges.len());
        for (&(a, b), &w) in &m.edges {
            ensure!("has_edge", g.has_edge(ix(a), ix(b)), "{}: has_edge({}, {}) is false for an edge of weight {:?}", stage, a, b, wt(w));
            ensure!("edge_weight", g.get_edge_weight(ix(a), ix(b)).copied() == Some(wt(w)), "{}: get_edge_weight({}, {}) = {:?}, expected {:?}", stage, a, b, g.get_edge_weight(ix(a), ix(b)), wt(w));
        }
        for &a in m.nodes.keys() {
            let n = g.neighbors(ix(a)).count();
            ensure!("neighbors", n == m.succ(a).len(), "{}: neighbors({}) yields {} nodes, expected {}", stage, a, n, m.succ(a).len());
            for &b in m.nodes.keys() {
                if m.weight(a, b).is_none() {
                    ensure!("has_edge", !g.has_edge(ix(a), ix(b)), "{}: has_edge({}, {}) is true although there is no such edge", stage, a, b);
                    ensure!("edge_weight", g.get_edge_weight(ix(a), ix(b)).is_none(), "{}: get_edge_weight({}, {}) = {:?} although there is no such edge", stage, a, b, g.get_edge_weight(ix(a), ix(b)));
                }
            }
        }
        Ok(())
    };
    check(&g, &wt, "after add_edge")?;
    // rewrite every weight through the mutable accessors with the next value of the table
    let wt2 = |w: u32| table[(w as usize + 1) % table.len()];
    for (&(a, b), &w) in &m.edges {
        match g.get_edge_weight_mut(ix(a), ix(b)) {
            Some(x) => *x = wt2(w),
            None => ensure!("edge_weight_mut", false, "get_edge_weight_mut({}, {}) is None for an existing edge", a, b),
        }
    }
    check(&g, &wt2, "after rewriting the weights")?;
    // update_edge returns the old weight
    for (&(a, b), &w) in &m.edges {
        let old = g.update_edge(ix(a), ix(b), wt(w));
        ensure!("update_edge", old == Some(wt2(w)), "update_edge({}, {}) returned {:?}, the weight was {:?}", a, b, old, wt2(w));
    }
    check(&g, &wt, "after update_edge")?;
    Ok(())
}
