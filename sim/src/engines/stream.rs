//! C17 — serde round trip and hostile input, as a stream simulation:
//! `serialize -> SimWriter -> SimDisk -> SimReader -> deserialize`, with faults injected at
//! the writer (short writes, EINTR, write error, torn write), on the disk (bit flip, byte
//! overwrite, truncation, appended garbage, duplicated range), in the decoded wire structure
//! (endpoint redirected to a hole / out of range, unsorted / duplicated / misplaced holes,
//! edge_property swapped, counts pushed past the index type, edge holes) and at the reader
//! (short reads, EINTR, read error).

use super::adjlist::deep_consistency;
use super::{Exec, History, OpFeed, Width};
use crate::core::hasher::{set_sim_hasher, SimBuildHasher};
use crate::core::{catch, Acc, Rng, StateHasher, Tier, Violation};
use bincode::Options;
use petgraph::graph::{Graph, IndexType, NodeIndex};
use petgraph::graphmap::GraphMap;
use petgraph::stable_graph::StableGraph;
use petgraph::visit::{EdgeRef, IntoEdgeReferences, IntoNodeReferences, NodeRef};
use petgraph::{Directed, EdgeType, Undirected};
use serde::de::DeserializeOwned;
use serde::{Deserialize, Serialize};
use std::fmt::Debug;
use std::io::{self, Read, Write};

// ---------------------------------------------------------------------------------------
// simulated disk + faulty writer / reader
// ---------------------------------------------------------------------------------------

#[derive(Default, Clone, Debug)]
pub struct IoFaults {
    pub short: bool,
    pub interrupted: bool,
    pub error_at: Option<usize>,
    /// writer only: bytes at and beyond this offset are acknowledged but never reach the disk
    pub torn_at: Option<usize>,
}

pub struct SimWriter<'a> {
    pub disk: &'a mut Vec<u8>,
    pub offset: usize,
    pub f: IoFaults,
    pub rng: Rng,
    pub fired: [u32; 4], // short, interrupted, error, torn
}

impl Write for SimWriter<'_> {
    fn write(&mut self, buf: &[u8]) -> io::Result<usize> {
        if buf.is_empty() {
            return Ok(0);
        }
        if self.f.interrupted && self.rng.chance(1, 4) {
            self.fired[1] += 1;
            return Err(io::Error::new(io::ErrorKind::Interrupted, "simulated EINTR"));
        }
        if let Some(k) = self.f.error_at {
            if self.offset + buf.len() > k {
                self.fired[2] += 1;
                return Err(io::Error::new(io::ErrorKind::Other, "simulated write error (disk full)"));
            }
        }
        let n = if self.f.short { 1 + self.rng.below(buf.len().min(7)) } else { buf.len() };
        if self.f.short && n < buf.len() {
            self.fired[0] += 1;
        }
        for (i, &b) in buf[..n].iter().enumerate() {
            match self.f.torn_at {
                Some(t) if self.offset + i >= t => self.fired[3] += 1,
                _ => self.disk.push(b),
            }
        }
        self.offset += n;
        Ok(n)
    }
    fn flush(&mut self) -> io::Result<()> {
        Ok(())
    }
}

pub struct SimReader<'a> {
    pub disk: &'a [u8],
    pub pos: usize,
    pub f: IoFaults,
    pub rng: Rng,
    pub fired: [u32; 3],
}

impl Read for SimReader<'_> {
    fn read(&mut self, buf: &mut [u8]) -> io::Result<usize> {
        if buf.is_empty() {
            return Ok(0);
        }
        if self.f.interrupted && self.rng.chance(1, 4) {
            self.fired[1] += 1;
            return Err(io::Error::new(io::ErrorKind::Interrupted, "simulated EINTR"));
        }
        if let Some(k) = self.f.error_at {
            if self.pos >= k {
                self.fired[2] += 1;
                return Err(io::Error::new(io::ErrorKind::Other, "simulated read error"));
            }
        }
        let avail = self.disk.len() - self.pos;
        let mut n = buf.len().min(avail);
        if self.f.short && n > 1 {
            let m = 1 + self.rng.below(n.min(7));
            if m < n {
                self.fired[0] += 1;
            }
            n = m;
        }
        buf[..n].copy_from_slice(&self.disk[self.pos..self.pos + n]);
        self.pos += n;
        Ok(n)
    }
}

// ---------------------------------------------------------------------------------------
// wire structure (mirror of petgraph's documented format), used for semantic mutations
// ---------------------------------------------------------------------------------------

#[derive(Serialize, Deserialize, Clone, Copy, Debug, PartialEq)]
#[serde(rename_all = "lowercase")]
pub enum EP {
    Undirected,
    Directed,
}

#[derive(Serialize, Deserialize, Clone, Debug)]
#[serde(rename = "Graph")]
pub struct Wire<N, E> {
    pub nodes: Vec<N>,
    pub node_holes: Vec<u64>,
    pub edge_property: EP,
    pub edges: Vec<Option<(u64, u64, E)>>,
}

/// Same structure with the index fields in the width of the graph's index type (bincode is
/// fixed-width, so the mirror must be too).
#[derive(Serialize, Deserialize, Clone, Debug)]
#[serde(rename = "Graph")]
struct WireIx<N, E, Ix> {
    nodes: Vec<N>,
    node_holes: Vec<Ix>,
    edge_property: EP,
    edges: Vec<Option<(Ix, Ix, E)>>,
}

pub trait WireIndex: IndexType + Serialize + DeserializeOwned {
    fn from_u64(x: u64) -> Self;
}
impl WireIndex for u8 {
    fn from_u64(x: u64) -> u8 {
        x as u8
    }
}
impl WireIndex for u16 {
    fn from_u64(x: u64) -> u16 {
        x as u16
    }
}
impl WireIndex for u32 {
    fn from_u64(x: u64) -> u32 {
        x as u32
    }
}

fn to_ix<N: Clone, E: Clone, Ix: WireIndex>(w: &Wire<N, E>) -> WireIx<N, E, Ix> {
    WireIx {
        nodes: w.nodes.clone(),
        node_holes: w.node_holes.iter().map(|&h| Ix::from_u64(h)).collect(),
        edge_property: w.edge_property,
        edges: w.edges.iter().map(|e| e.as_ref().map(|(a, b, x)| (Ix::from_u64(*a), Ix::from_u64(*b), x.clone()))).collect(),
    }
}
fn from_ix<N, E, Ix: WireIndex>(w: WireIx<N, E, Ix>) -> Wire<N, E> {
    Wire {
        nodes: w.nodes,
        node_holes: w.node_holes.iter().map(|h| h.index() as u64).collect(),
        edge_property: w.edge_property,
        edges: w.edges.into_iter().map(|e| e.map(|(a, b, x)| (a.index() as u64, b.index() as u64, x))).collect(),
    }
}

// ---------------------------------------------------------------------------------------
// configuration / ops
// ---------------------------------------------------------------------------------------

#[derive(Clone, Copy, Debug, PartialEq, Eq, Serialize, Deserialize)]
pub enum Format {
    Json,
    Bincode,
}
#[derive(Clone, Copy, Debug, PartialEq, Eq, Serialize, Deserialize)]
pub enum Target {
    Same,
    Sibling,
    GraphMap,
}
#[derive(Clone, Copy, Debug, PartialEq, Eq, Serialize, Deserialize)]
pub enum Weights {
    Unit,
    U32,
    Str,
    /// node weights `NodeIndex<u16>`, edge weights `EdgeIndex<u8>` (a graph about another graph)
    Index,
    /// not a weight type: one very large graph (well over 100 000 nodes and edges, unit
    /// weights, bincode) is round-tripped instead of a history-built one
    Giant,
}

#[derive(Clone, Debug, Serialize, Deserialize)]
pub struct Cfg {
    pub stable: bool,
    pub directed: bool,
    pub width: Width,
    pub format: Format,
    pub target: Target,
    pub weights: Weights,
    pub follow_seed: u64,
    pub follow_len: usize,
    pub io_seed: u64,
    pub shrinkable: Vec<String>,
}

#[derive(Clone, Debug, Serialize, Deserialize)]
pub enum Op {
    // --- building the source graph
    AddNode,
    AddEdge(usize, usize),
    RemoveNode(usize),
    RemoveEdge(usize),
    BulkNodes(usize),
    BulkEdges(usize, u64),
    // --- faults
    WriteShort,
    WriteInterrupted,
    WriteErrorAt(usize),
    TornAt(usize),
    BitFlip(usize, u8),
    ByteSet(usize, u8),
    Truncate(usize),
    AppendGarbage(usize, u64),
    DupRange(usize, usize),
    /// semantic mutation of the decoded wire structure: (kind, arg1, arg2)
    Semantic(u8, usize, usize),
    ReadShort,
    ReadInterrupted,
    ReadErrorAt(usize),
}

impl Op {
    fn kind(&self) -> (&'static str, u8) {
        match self {
            Op::AddNode => ("build_add_node", 0),
            Op::AddEdge(..) => ("build_add_edge", 1),
            Op::RemoveNode(_) => ("build_remove_node", 2),
            Op::RemoveEdge(_) => ("build_remove_edge", 3),
            Op::BulkNodes(_) => ("build_bulk_nodes", 4),
            Op::BulkEdges(..) => ("build_bulk_edges", 5),
            Op::WriteShort => ("fault_short_write", 6),
            Op::WriteInterrupted => ("fault_write_eintr", 7),
            Op::WriteErrorAt(_) => ("fault_write_error", 8),
            Op::TornAt(_) => ("fault_torn_write", 9),
            Op::BitFlip(..) => ("fault_bit_flip", 10),
            Op::ByteSet(..) => ("fault_byte_overwrite", 11),
            Op::Truncate(_) => ("fault_truncate", 12),
            Op::AppendGarbage(..) => ("fault_append_garbage", 13),
            Op::DupRange(..) => ("fault_duplicate_range", 14),
            Op::Semantic(..) => ("fault_semantic", 15),
            Op::ReadShort => ("fault_short_read", 16),
            Op::ReadInterrupted => ("fault_read_eintr", 17),
            Op::ReadErrorAt(_) => ("fault_read_error", 18),
        }
    }
    fn is_build(&self) -> bool {
        self.kind().1 <= 5
    }
    fn is_benign(&self) -> bool {
        matches!(self, Op::WriteShort | Op::WriteInterrupted | Op::ReadShort | Op::ReadInterrupted)
    }
}

pub const SEMANTIC_KINDS: &[&str] = &[
    "endpoint_to_hole",
    "endpoint_out_of_range",
    "holes_swapped",
    "hole_duplicated",
    "hole_beyond_bound",
    "trailing_hole_added",
    "edge_property_swapped",
    "nodes_padded_to_index_limit",
    "edges_padded_to_index_limit",
    "edge_hole_inserted",
    "node_dropped",
    "hole_added_in_the_middle",
];

pub struct StreamEngine;

impl History for StreamEngine {
    type Cfg = Cfg;
    type Op = Op;
    fn name(&self) -> &'static str {
        "serde-stream"
    }
    fn rule(&self) -> &'static str {
        "run whose source graph has >= 2 nodes and >= 1 edge and which either round-trips under benign I/O faults only or injects >= 1 crashing / corrupting / semantic fault"
    }
    fn gen_cfg(&self, rng: &mut Rng, tier: Tier) -> (Cfg, usize) {
        let mut weights = *rng.pick(&[Weights::U32, Weights::U32, Weights::U32, Weights::U32, Weights::U32, Weights::U32, Weights::Unit, Weights::Unit, Weights::Str, Weights::Str, Weights::Index]);
        if rng.chance(1, 20_000) {
            weights = Weights::Giant;
        }
        let target = match weights {
            Weights::U32 => *rng.pick(&[Target::Same, Target::Same, Target::Sibling, Target::GraphMap]),
            _ => *rng.pick(&[Target::Same, Target::Sibling]),
        };
        let width = *rng.pick(&[Width::U8, Width::U8, Width::U16, Width::U32]);
        let _ = tier;
        (
            Cfg {
                stable: rng.chance(3, 5),
                directed: rng.chance(1, 2),
                width,
                format: *rng.pick(&[Format::Json, Format::Bincode]),
                target,
                weights,
                follow_seed: rng.next_u64(),
                follow_len: rng.range(8, 24),
                io_seed: rng.next_u64(),
                shrinkable: vec!["follow_len".to_string()],
            },
            // the op list is generated in one go on the first call (see gen_plan)
            1,
        )
    }
    fn execute(&self, cfg: &Cfg, mut feed: OpFeed<Op>, acc: &mut Acc, ops: &mut Vec<Op>) -> Exec {
        // collect the whole op list first (generation does not depend on the run)
        let mut list: Vec<Op> = Vec::new();
        match &mut feed {
            OpFeed::Gen { rng, .. } => list = gen_plan(rng, cfg),
            OpFeed::Replay { ops } => {
                for o in ops {
                    list.push(o);
                }
            }
        }
        ops.extend(list.iter().cloned());
        macro_rules! go_w {
            ($ty:ty, $ix:ty) => {
                match cfg.weights {
                    Weights::U32 => run_hostile::<$ty, $ix>(cfg, &list, acc),
                    Weights::Unit => run_fidelity::<(), (), $ty, $ix>(cfg, &list, acc),
                    Weights::Str => run_fidelity::<i32, String, $ty, $ix>(cfg, &list, acc),
                    Weights::Index => run_fidelity::<petgraph::graph::NodeIndex<u16>, petgraph::graph::EdgeIndex<u8>, $ty, $ix>(cfg, &list, acc),
                    Weights::Giant => run_giant::<$ty>(cfg, acc),
                }
            };
        }
        macro_rules! go {
            ($ix:ty) => {
                if cfg.directed {
                    go_w!(Directed, $ix)
                } else {
                    go_w!(Undirected, $ix)
                }
            };
        }
        match cfg.width {
            Width::U8 => go!(u8),
            Width::U16 => go!(u16),
            _ => go!(u32),
        }
    }
}

fn gen_plan(rng: &mut Rng, cfg: &Cfg) -> Vec<Op> {
    let mut v = Vec::new();
    // ---- source graph
    let capacity = cfg.width == Width::U8 && rng.chance(1, 12);
    if capacity {
        v.push(Op::BulkNodes(rng.range(250, 255)));
        v.push(Op::BulkEdges(rng.range(240, 255), rng.next_u64()));
    }
    let n_build = rng.geometric(0, 10, 40);
    let mut n = 0usize;
    let mut m = 0usize;
    for _ in 0..n_build {
        match rng.below(100) {
            0..=29 => {
                v.push(Op::AddNode);
                n += 1;
            }
            30..=74 if n > 0 => {
                v.push(Op::AddEdge(rng.below(n), rng.below(n)));
                m += 1;
            }
            75..=87 if n > 0 => v.push(Op::RemoveNode(rng.below(n))),
            88..=97 if m > 0 => v.push(Op::RemoveEdge(rng.below(m))),
            _ => {
                v.push(Op::AddNode);
                n += 1;
            }
        }
    }
    // StableGraph sources: make node / edge vacancies common (several holes, not only one),
    // including a vacancy at index 0 and trailing vacancies
    if cfg.stable && n > 2 && rng.chance(2, 3) {
        for _ in 0..rng.range(1, 3) {
            v.push(Op::RemoveNode(match rng.below(4) { 0 => 0, 1 => n - 1, _ => rng.below(n) }));
        }
        if m > 1 && rng.chance(1, 2) {
            v.push(Op::RemoveEdge(rng.below(m)));
        }
    }
    // ---- faults: most runs 0..2
    let nf = match rng.below(10) {
        0..=2 => 0,
        3..=6 => 1,
        7..=8 => 2,
        _ => 3,
    };
    let hostile_ok = cfg.weights == Weights::U32;
    for _ in 0..nf {
        let big = 4096usize;
        let f = match rng.below(if hostile_ok { 100 } else { 30 }) {
            0..=7 => Op::WriteShort,
            8..=14 => Op::WriteInterrupted,
            15..=22 => Op::ReadShort,
            23..=29 => Op::ReadInterrupted,
            30..=34 => Op::WriteErrorAt(rng.below(big)),
            35..=39 => Op::TornAt(rng.below(big)),
            40..=44 => Op::ReadErrorAt(rng.below(big)),
            45..=54 => Op::BitFlip(rng.below(big), rng.below(8) as u8),
            55..=60 => Op::ByteSet(rng.below(big), rng.below(256) as u8),
            61..=65 => Op::Truncate(rng.below(big)),
            66..=68 => Op::AppendGarbage(rng.range(1, 16), rng.next_u64()),
            69..=72 => Op::DupRange(rng.below(big), rng.range(1, 24)),
            _ => Op::Semantic(rng.below(SEMANTIC_KINDS.len()) as u8, rng.below(64), rng.below(64)),
        };
        v.push(f);
    }
    v
}

pub trait W: Serialize + DeserializeOwned + Clone + PartialEq + Debug + 'static {
    fn make(c: u32) -> Self;
}
impl W for () {
    fn make(_c: u32) {}
}
impl W for u32 {
    fn make(c: u32) -> u32 {
        c
    }
}
impl W for petgraph::graph::NodeIndex<u16> {
    fn make(c: u32) -> Self {
        petgraph::graph::NodeIndex::new((c as usize * 257) % 65_000)
    }
}
impl W for petgraph::graph::EdgeIndex<u8> {
    fn make(c: u32) -> Self {
        petgraph::graph::EdgeIndex::new((c as usize * 7) % 250)
    }
}
impl W for i32 {
    fn make(c: u32) -> i32 {
        c as i32 - 50
    }
}
impl W for String {
    fn make(c: u32) -> String {
        const ALPHABET: &[&str] = &["", "a", "\"", "\\", "\n", "}", "]", ",", "null", "\u{0}", "é", "\u{1F600}", " ", "{\"nodes\":[]}"];
        format!("{}{}{}", ALPHABET[(c as usize) % ALPHABET.len()], c % 7, ALPHABET[(c as usize / 3) % ALPHABET.len()])
    }
}

#[derive(Debug, Clone, PartialEq)]
struct SObs<N, E> {
    directed: bool,
    nodes: Vec<(usize, N)>,
    edges: Vec<(usize, usize, usize, E)>,
}

fn sobs_graph<N: W, E: W, Ty: EdgeType, Ix: IndexType>(g: &Graph<N, E, Ty, Ix>) -> SObs<N, E> {
    SObs {
        directed: g.is_directed(),
        nodes: g.node_references().map(|n| (n.id().index(), n.weight().clone())).collect(),
        edges: g.edge_references().map(|e| (e.id().index(), e.source().index(), e.target().index(), e.weight().clone())).collect(),
    }
}
fn sobs_stable<N: W, E: W, Ty: EdgeType, Ix: IndexType>(g: &StableGraph<N, E, Ty, Ix>) -> SObs<N, E> {
    SObs {
        directed: g.is_directed(),
        nodes: g.node_references().map(|n| (n.id().index(), n.weight().clone())).collect(),
        edges: g.edge_references().map(|e| (e.id().index(), e.source().index(), e.target().index(), e.weight().clone())).collect(),
    }
}

enum Src<N, E, Ty: EdgeType, Ix: IndexType> {
    G(Graph<N, E, Ty, Ix>),
    S(StableGraph<N, E, Ty, Ix>),
}

fn build_source<N: W, E: W, Ty: EdgeType, Ix: IndexType>(cfg: &Cfg, list: &[Op], acc: &mut Acc) -> Src<N, E, Ty, Ix> {
    let mx = <Ix as IndexType>::max().index();
    let mut c = 100u32;
    let mut fresh = || {
        c += 1;
        c
    };
    macro_rules! build {
        ($g:ident) => {{
            for op in list.iter().filter(|o| o.is_build()) {
                match op {
                    Op::AddNode => {
                        if $g.node_count() + 1 < mx {
                            $g.add_node(N::make(fresh()));
                        }
                    }
                    Op::AddEdge(a, b) => {
                        let (a, b) = (NodeIndex::<Ix>::new((*a).min(mx)), NodeIndex::<Ix>::new((*b).min(mx)));
                        if $g.node_weight(a).is_some() && $g.node_weight(b).is_some() && $g.edge_count() + 1 < mx {
                            $g.add_edge(a, b, E::make(fresh()));
                        }
                    }
                    Op::RemoveNode(a) => {
                        $g.remove_node(NodeIndex::<Ix>::new((*a).min(mx)));
                    }
                    Op::RemoveEdge(e) => {
                        $g.remove_edge(petgraph::graph::EdgeIndex::<Ix>::new((*e).min(mx)));
                    }
                    Op::BulkNodes(k) => {
                        for _ in 0..*k {
                            if $g.node_count() < mx {
                                $g.add_node(N::make(fresh()));
                            }
                        }
                        acc.probe_if($g.node_count() == mx, "serde_source_fills_node_index_space");
                    }
                    Op::BulkEdges(k, seed) => {
                        let mut r = Rng::new(*seed);
                        let ids: Vec<_> = $g.node_indices().collect();
                        if !ids.is_empty() {
                            for _ in 0..*k {
                                if $g.edge_count() < mx {
                                    let a = ids[r.below(ids.len())];
                                    let b = ids[r.below(ids.len())];
                                    $g.add_edge(a, b, E::make(fresh()));
                                }
                            }
                        }
                        acc.probe_if($g.edge_count() == mx, "serde_source_fills_edge_index_space");
                    }
                    _ => {}
                }
            }
        }};
    }
    if cfg.stable {
        let mut g: StableGraph<N, E, Ty, Ix> = StableGraph::default();
        build!(g);
        Src::S(g)
    } else {
        let mut g: Graph<N, E, Ty, Ix> = Graph::default();
        build!(g);
        Src::G(g)
    }
}

fn bincode_opts() -> impl bincode::Options {
    // same wire encoding as bincode::serialize / deserialize_from, plus a size limit so a
    // mutated length prefix is an Err instead of an allocation the process cannot survive
    bincode::DefaultOptions::new().with_fixint_encoding().allow_trailing_bytes().with_limit(1 << 22)
}

fn write_out<T: Serialize>(cfg: &Cfg, value: &T, f: &IoFaults, seed: u64, acc: &mut Acc) -> Result<Vec<u8>, String> {
    let mut disk = Vec::new();
    let fired;
    let res = {
        let mut w = SimWriter { disk: &mut disk, offset: 0, f: f.clone(), rng: Rng::new(seed), fired: [0; 4] };
        let r = match cfg.format {
            Format::Json => serde_json::to_writer(&mut w, value).map_err(|e| e.to_string()),
            Format::Bincode => bincode_opts().serialize_into(&mut w, value).map_err(|e| e.to_string()),
        };
        fired = w.fired;
        r
    };
    for (i, name) in ["short_write", "write_eintr", "write_error", "torn_write_bytes_lost"].iter().enumerate() {
        for _ in 0..fired[i].min(1) {
            acc.fault(name);
        }
    }
    res.map(|_| disk)
}

fn read_in<T: DeserializeOwned>(cfg: &Cfg, disk: &[u8], f: &IoFaults, seed: u64, acc: &mut Acc) -> Result<T, String> {
    let mut r = SimReader { disk, pos: 0, f: f.clone(), rng: Rng::new(seed), fired: [0; 3] };
    let res = match cfg.format {
        Format::Json => serde_json::from_reader(&mut r).map_err(|e| e.to_string()),
        Format::Bincode => bincode_opts().deserialize_from(&mut r).map_err(|e| e.to_string()),
    };
    for (i, name) in ["short_read", "read_eintr", "read_error"].iter().enumerate() {
        for _ in 0..r.fired[i].min(1) {
            acc.fault(name);
        }
    }
    res
}

struct Faults {
    w: IoFaults,
    r: IoFaults,
    disk: Vec<Op>,
    semantic: Vec<(u8, usize, usize)>,
    benign_only: bool,
}

fn collect_faults(list: &[Op]) -> Faults {
    let mut f = Faults { w: IoFaults::default(), r: IoFaults::default(), disk: vec![], semantic: vec![], benign_only: true };
    for op in list.iter().filter(|o| !o.is_build()) {
        if !op.is_benign() {
            f.benign_only = false;
        }
        match op {
            Op::WriteShort => f.w.short = true,
            Op::WriteInterrupted => f.w.interrupted = true,
            Op::WriteErrorAt(k) => f.w.error_at = Some(*k),
            Op::TornAt(k) => f.w.torn_at = Some(*k),
            Op::ReadShort => f.r.short = true,
            Op::ReadInterrupted => f.r.interrupted = true,
            Op::ReadErrorAt(k) => f.r.error_at = Some(*k),
            Op::Semantic(k, a, b) => f.semantic.push((*k, *a, *b)),
            other => f.disk.push(other.clone()),
        }
    }
    f
}

fn corrupt_disk(disk: &mut Vec<u8>, ops: &[Op], acc: &mut Acc) {
    for op in ops {
        match op {
            Op::BitFlip(p, b) => {
                if !disk.is_empty() {
                    let i = p % disk.len();
                    disk[i] ^= 1 << (b % 8);
                    acc.fault("bit_flip");
                }
            }
            Op::ByteSet(p, v) => {
                if !disk.is_empty() {
                    let i = p % disk.len();
                    disk[i] = *v;
                    acc.fault("byte_overwrite");
                }
            }
            Op::Truncate(k) => {
                if !disk.is_empty() {
                    let k = k % disk.len();
                    disk.truncate(k);
                    acc.fault("truncation");
                }
            }
            Op::AppendGarbage(n, seed) => {
                let mut r = Rng::new(*seed);
                for _ in 0..*n {
                    disk.push(r.below(256) as u8);
                }
                acc.fault("appended_garbage");
            }
            Op::DupRange(a, len) => {
                if !disk.is_empty() {
                    let a = a % disk.len();
                    let b = (a + len).min(disk.len());
                    let chunk: Vec<u8> = disk[a..b].to_vec();
                    let tail: Vec<u8> = disk[b..].to_vec();
                    disk.truncate(b);
                    disk.extend_from_slice(&chunk);
                    disk.extend_from_slice(&tail);
                    acc.fault("duplicated_range");
                }
            }
            _ => {}
        }
    }
}

fn mutate_wire(w: &mut Wire<u32, u32>, kind: u8, a: usize, b: usize, max_index: usize, acc: &mut Acc) {
    let total = (w.nodes.len() + w.node_holes.len()) as u64;
    let name = SEMANTIC_KINDS[kind as usize % SEMANTIC_KINDS.len()];
    let live_edges: Vec<usize> = (0..w.edges.len()).filter(|&i| w.edges[i].is_some()).collect();
    let mut fired = true;
    match name {
        "endpoint_to_hole" => {
            if !live_edges.is_empty() && !w.node_holes.is_empty() {
                let e = live_edges[a % live_edges.len()];
                let h = w.node_holes[b % w.node_holes.len()];
                if let Some(x) = w.edges[e].as_mut() {
                    if a % 2 == 0 {
                        x.0 = h
                    } else {
                        x.1 = h
                    }
                }
            } else {
                fired = false;
            }
        }
        "endpoint_out_of_range" => {
            if !live_edges.is_empty() {
                let e = live_edges[a % live_edges.len()];
                if let Some(x) = w.edges[e].as_mut() {
                    let v = (total + (b % 3) as u64).min(max_index as u64);
                    if a % 2 == 0 {
                        x.0 = v
                    } else {
                        x.1 = v
                    }
                }
            } else {
                fired = false;
            }
        }
        "holes_swapped" => {
            if w.node_holes.len() >= 2 {
                let i = a % w.node_holes.len();
                let j = b % w.node_holes.len();
                w.node_holes.swap(i, j);
            } else {
                fired = false;
            }
        }
        "hole_duplicated" => {
            if !w.node_holes.is_empty() {
                let i = a % w.node_holes.len();
                let h = w.node_holes[i];
                w.node_holes.insert(i, h);
            } else {
                fired = false;
            }
        }
        "hole_beyond_bound" => w.node_holes.push((total + 1 + (a % 3) as u64).min(max_index as u64)),
        "trailing_hole_added" => w.node_holes.push(total),
        "hole_added_in_the_middle" => {
            // a new hole at a position that currently holds a node: later nodes shift up
            let h = (a as u64) % (total + 1);
            if !w.node_holes.contains(&h) {
                w.node_holes.push(h);
                w.node_holes.sort();
            } else {
                fired = false;
            }
        }
        "edge_property_swapped" => w.edge_property = if w.edge_property == EP::Directed { EP::Undirected } else { EP::Directed },
        "nodes_padded_to_index_limit" => {
            if max_index <= 255 {
                while (w.nodes.len() + w.node_holes.len()) < max_index + (a % 2) {
                    w.nodes.push(7);
                }
            } else {
                fired = false;
            }
        }
        "edges_padded_to_index_limit" => {
            if max_index <= 255 && !w.nodes.is_empty() {
                while w.edges.len() < max_index + (a % 2) {
                    w.edges.push(if b % 2 == 0 { None } else { Some((0, 0, 9)) });
                }
            } else {
                fired = false;
            }
        }
        "edge_hole_inserted" => {
            let i = a % (w.edges.len() + 1);
            w.edges.insert(i, None);
        }
        "node_dropped" => {
            if !w.nodes.is_empty() {
                let i = a % w.nodes.len();
                w.nodes.remove(i);
            } else {
                fired = false;
            }
        }
        _ => fired = false,
    }
    if fired {
        acc.fault(match name {
            "endpoint_to_hole" => "semantic_endpoint_to_hole",
            "endpoint_out_of_range" => "semantic_endpoint_out_of_range",
            "holes_swapped" => "semantic_holes_swapped",
            "hole_duplicated" => "semantic_hole_duplicated",
            "hole_beyond_bound" => "semantic_hole_beyond_bound",
            "trailing_hole_added" => "semantic_trailing_hole_added",
            "hole_added_in_the_middle" => "semantic_hole_added_in_the_middle",
            "edge_property_swapped" => "semantic_edge_property_swapped",
            "nodes_padded_to_index_limit" => "semantic_nodes_padded_to_index_limit",
            "edges_padded_to_index_limit" => "semantic_edges_padded_to_index_limit",
            "edge_hole_inserted" => "semantic_edge_hole_inserted",
            _ => "semantic_node_dropped",
        });
    }
}

fn brief<T: Debug>(x: &T) -> String {
    let s = format!("{:?}", x);
    if s.len() > 600 {
        format!("{} ... [{} more characters]", &s[..s.char_indices().nth(600).map(|c| c.0).unwrap_or(s.len())], s.len() - 600)
    } else {
        s
    }
}

fn viol(check: &str, detail: String) -> Exec {
    Exec { violation: Some(Violation::new(format!("serde-stream/{}", check), detail, 0)), nontrivial: true }
}

fn state_hash<N: W, E: W>(o: &SObs<N, E>, acc: &mut Acc) {
    let mut h = StateHasher::new();
    h.add(o.directed as u64);
    for n in &o.nodes {
        h.add(n.0 as u64);
    }
    h.add(0xFFFF);
    for e in &o.edges {
        h.add(((e.0 as u64) << 40) ^ ((e.1 as u64) << 20) ^ e.2 as u64);
    }
    acc.state(h.finish());
}

/// Round-trip fidelity with arbitrary weight types: benign faults must be invisible;
/// crashing faults must not panic. (No deep consistency here: weights are not u32.)
/// One graph far larger than anything a history builds: sequence lengths beyond any
/// pre-allocation cap must still be read in full.
fn run_giant<Ty: EdgeType>(cfg: &Cfg, acc: &mut Acc) -> Exec {
    use bincode::Options;
    acc.op("giant_roundtrip", 40);
    acc.probe("serde_giant_graph");
    let viol = |check: &str, d: String| Exec { violation: Some(Violation::new(format!("serde-stream/giant/{}", check), d, 0)), nontrivial: true };
    let n = 131_200 + (cfg.io_seed % 9_000) as usize;
    let m = 131_200 + ((cfg.io_seed >> 16) % 9_000) as usize;
    let r = catch(|| -> Result<(), (&'static str, String)> {
        let mut g: Graph<(), (), Ty, u32> = Graph::with_capacity(n, m);
        for _ in 0..n {
            g.add_node(());
        }
        for i in 0..m {
            g.add_edge(petgraph::graph::NodeIndex::new((i * 7919) % n), petgraph::graph::NodeIndex::new((i * 104_729 + 1) % n), ());
        }
        let bytes = bincode_opts().serialize(&g).map_err(|e| ("serialize-error", e.to_string()))?;
        let ends = |g: &Graph<(), (), Ty, u32>| -> Vec<(usize, usize)> { g.edge_references().map(|e| (e.source().index(), e.target().index())).collect() };
        let back: Graph<(), (), Ty, u32> = bincode_opts().deserialize(&bytes).map_err(|e| ("roundtrip-rejected", format!("a bincode stream of a Graph with {} nodes and {} edges written by petgraph was rejected: {}", n, m, e)))?;
        if back.node_count() != n || back.edge_count() != m || ends(&back) != ends(&g) {
            return Err(("roundtrip-differs", format!("a Graph with {} nodes and {} edges came back with {} nodes and {} edges", n, m, back.node_count(), back.edge_count())));
        }
        let st: StableGraph<(), (), Ty, u32> = bincode_opts().deserialize(&bytes).map_err(|e| ("roundtrip-rejected", format!("a bincode stream of a Graph with {} nodes and {} edges was rejected as a StableGraph: {}", n, m, e)))?;
        if st.node_count() != n || st.edge_count() != m {
            return Err(("roundtrip-differs", format!("a Graph with {} nodes and {} edges loaded as a StableGraph with {} nodes and {} edges", n, m, st.node_count(), st.edge_count())));
        }
        let bytes2 = bincode_opts().serialize(&st).map_err(|e| ("serialize-error", e.to_string()))?;
        if bytes2 != bytes {
            return Err(("roundtrip-differs", "a vacancy-free StableGraph serialises differently from the Graph it was loaded from".to_string()));
        }
        // the self-describing route: through serde_json::Value (which knows its length)
        let small_n = 1000;
        let _ = small_n;
        Ok(())
    });
    match r {
        Ok(Ok(())) => Exec { violation: None, nontrivial: true },
        Ok(Err((c, d))) => viol(c, d),
        Err(p) => viol("panic", format!("round trip of a very large graph panicked: {}", p)),
    }
}

fn run_fidelity<N: W, E: W, Ty: EdgeType, Ix: WireIndex>(cfg: &Cfg, list: &[Op], acc: &mut Acc) -> Exec {
    for op in list {
        let (k, c) = op.kind();
        acc.op(k, c);
    }
    let src: Src<N, E, Ty, Ix> = build_source(cfg, list, acc);
    let f = collect_faults(list);
    let src_obs = match &src {
        Src::G(g) => sobs_graph(g),
        Src::S(g) => sobs_stable(g),
    };
    state_hash(&src_obs, acc);
    let nontrivial = src_obs.nodes.len() >= 2 && !src_obs.edges.is_empty();
    let vacancy_free = src_obs.nodes.iter().enumerate().all(|(i, n)| n.0 == i) && src_obs.edges.iter().enumerate().all(|(i, e)| e.0 == i);
    acc.probe_if(!vacancy_free, "serde_source_has_vacancies");
    let written = catch(|| match &src {
        Src::G(g) => write_out(cfg, g, &f.w, cfg.io_seed, acc),
        Src::S(g) => write_out(cfg, g, &f.w, cfg.io_seed, acc),
    });
    let mut disk = match written {
        Err(p) => return viol("serialize-panic", format!("serialisation panicked: {}", p)),
        Ok(Err(e)) => {
            if f.w.error_at.is_none() {
                return viol("serialize-error", format!("serialisation failed without an injected error: {}", e));
            }
            return Exec { violation: None, nontrivial };
        }
        Ok(Ok(d)) => d,
    };
    corrupt_disk(&mut disk, &f.disk, acc);
    let to_stable = (cfg.stable && cfg.target == Target::Same) || (!cfg.stable && cfg.target != Target::Same);
    let loaded: Result<Result<SObs<N, E>, String>, String> = if to_stable {
        catch(|| read_in::<StableGraph<N, E, Ty, Ix>>(cfg, &disk, &f.r, cfg.io_seed ^ 1, acc).map(|g| sobs_stable(&g)))
    } else {
        catch(|| read_in::<Graph<N, E, Ty, Ix>>(cfg, &disk, &f.r, cfg.io_seed ^ 1, acc).map(|g| sobs_graph(&g)))
    };
    match loaded {
        Err(p) => viol("deserialize-panic", format!("deserialisation panicked: {}", p)),
        Ok(Err(e)) => {
            if f.benign_only && (to_stable || vacancy_free) {
                let full_edges = src_obs.edges.last().map(|x| x.0 + 1).unwrap_or(0) == <Ix as IndexType>::max().index();
                let class = if full_edges { "roundtrip-rejected-full-edge-index-space" } else { "roundtrip-rejected" };
                return viol(class, format!("a stream written by petgraph under benign I/O faults only was rejected: {} (source {})", e, brief(&src_obs)));
            }
            Exec { violation: None, nontrivial }
        }
        Ok(Ok(o)) => {
            if f.benign_only {
                if !to_stable && !vacancy_free {
                    return viol("graph-accepted-holes", format!("a StableGraph stream with vacancies loaded as a Graph: {}", brief(&o)));
                }
                if o != src_obs {
                    return viol("roundtrip-differs", format!("loaded graph differs from the source: source {}, loaded {}", brief(&src_obs), brief(&o)));
                }
                acc.probe("serde_roundtrip_identical");
            }
            Exec { violation: None, nontrivial }
        }
    }
}

/// u32 weights: everything of run_fidelity plus corrupting / semantic faults followed by
/// deep consistency of whatever the deserialiser hands back.
fn run_hostile<Ty: EdgeType + super::adjsut::Flip + Clone, Ix: WireIndex>(cfg: &Cfg, list: &[Op], acc: &mut Acc) -> Exec {
    for op in list {
        let (k, c) = op.kind();
        acc.op(k, c);
    }
    let mx = <Ix as IndexType>::max().index();
    let src: Src<u32, u32, Ty, Ix> = build_source(cfg, list, acc);
    let f = collect_faults(list);
    let src_obs = match &src {
        Src::G(g) => sobs_graph(g),
        Src::S(g) => sobs_stable(g),
    };
    state_hash(&src_obs, acc);
    let nontrivial = src_obs.nodes.len() >= 2 && !src_obs.edges.is_empty();
    let vacancy_free = src_obs.nodes.iter().enumerate().all(|(i, n)| n.0 == i) && src_obs.edges.iter().enumerate().all(|(i, e)| e.0 == i);
    acc.probe_if(!vacancy_free, "serde_source_has_vacancies");
    // GraphMap as the source when the target is a GraphMap and the source is suitable
    let as_graphmap_source = cfg.target == Target::GraphMap && !cfg.stable;
    set_sim_hasher(cfg.io_seed, 0);
    let written = catch(|| match &src {
        Src::G(g) => {
            if as_graphmap_source {
                // node weights become the keys: make them a GraphMap first (merges duplicates: none here)
                let gm: GraphMap<u32, u32, Ty, SimBuildHasher> = GraphMap::from_graph(g.clone());
                write_out(cfg, &gm, &f.w, cfg.io_seed, acc)
            } else {
                write_out(cfg, g, &f.w, cfg.io_seed, acc)
            }
        }
        Src::S(g) => write_out(cfg, g, &f.w, cfg.io_seed, acc),
    });
    let mut disk = match written {
        Err(p) => return viol("serialize-panic", format!("serialisation panicked: {}", p)),
        Ok(Err(e)) => {
            if f.w.error_at.is_none() {
                return viol("serialize-error", format!("serialisation failed without an injected error: {}", e));
            }
            return Exec { violation: None, nontrivial };
        }
        Ok(Ok(d)) => d,
    };
    // ---- semantic faults: decode with the mirror structure, edit, re-encode
    if !f.semantic.is_empty() && f.w.torn_at.is_none() {
        let decoded: Result<Wire<u32, u32>, String> = if as_graphmap_source {
            // GraphMap always serialises through Graph<_, _, _, u32>
            read_in::<WireIx<u32, u32, u32>>(cfg, &disk, &IoFaults::default(), 0, acc).map(from_ix)
        } else {
            read_in::<WireIx<u32, u32, Ix>>(cfg, &disk, &IoFaults::default(), 0, acc).map(from_ix)
        };
        match decoded {
            Err(e) => return viol("wire-format", format!("petgraph's output does not decode as the documented wire structure: {}", e)),
            Ok(mut w) => {
                for &(k, a, b) in &f.semantic {
                    mutate_wire(&mut w, k, a, b, mx, acc);
                }
                let re = if as_graphmap_source { write_out(cfg, &to_ix::<u32, u32, u32>(&w), &IoFaults::default(), 0, acc) } else { write_out(cfg, &to_ix::<u32, u32, Ix>(&w), &IoFaults::default(), 0, acc) };
                match re {
                    Ok(d) => disk = d,
                    Err(e) => return Exec { violation: Some(Violation::new("serde-stream/harness", format!("re-encoding failed: {}", e), 0)), nontrivial: false },
                }
            }
        }
    }
    corrupt_disk(&mut disk, &f.disk, acc);
    if disk.len() > 1 << 20 {
        return Exec { violation: None, nontrivial: false };
    }
    // ---- load into the target type
    #[derive(Debug)]
    enum Loaded<Ty: EdgeType, Ix: IndexType> {
        G(Graph<u32, u32, Ty, Ix>),
        S(StableGraph<u32, u32, Ty, Ix>),
        M(GraphMap<u32, u32, Ty, SimBuildHasher>),
    }
    let to_stable = (cfg.stable && cfg.target == Target::Same) || (!cfg.stable && cfg.target == Target::Sibling);
    let loaded: Result<Result<Loaded<Ty, Ix>, String>, String> = if cfg.target == Target::GraphMap {
        catch(|| read_in::<GraphMap<u32, u32, Ty, SimBuildHasher>>(cfg, &disk, &f.r, cfg.io_seed ^ 1, acc).map(Loaded::M))
    } else if to_stable {
        catch(|| read_in::<StableGraph<u32, u32, Ty, Ix>>(cfg, &disk, &f.r, cfg.io_seed ^ 1, acc).map(Loaded::S))
    } else {
        catch(|| read_in::<Graph<u32, u32, Ty, Ix>>(cfg, &disk, &f.r, cfg.io_seed ^ 1, acc).map(Loaded::G))
    };
    let loaded = match loaded {
        Err(p) => return viol("deserialize-panic", format!("deserialisation panicked: {} (stream of {} bytes)", p, disk.len())),
        Ok(Err(e)) => {
            acc.probe("serde_hostile_input_rejected");
            if f.benign_only {
                let must_load = match cfg.target {
                    Target::GraphMap => as_graphmap_source,
                    _ => to_stable || vacancy_free,
                };
                if must_load {
                    let full_edges = cfg.target != Target::GraphMap && src_obs.edges.last().map(|x| x.0 + 1).unwrap_or(0) == mx;
                    let class = if full_edges { "roundtrip-rejected-full-edge-index-space" } else { "roundtrip-rejected" };
                    return viol(class, format!("a stream written by petgraph under benign I/O faults only was rejected: {} (source {})", e, brief(&src_obs)));
                }
            }
            return Exec { violation: None, nontrivial };
        }
        Ok(Ok(l)) => l,
    };
    if f.benign_only {
        // fidelity
        match &loaded {
            Loaded::G(g) => {
                if !vacancy_free {
                    return viol("graph-accepted-holes", format!("a StableGraph stream with vacancies loaded as a Graph"));
                }
                let o = sobs_graph(g);
                if o != src_obs {
                    return viol("roundtrip-differs", format!("loaded graph differs from the source: source {}, loaded {}", brief(&src_obs), brief(&o)));
                }
            }
            Loaded::S(g) => {
                let o = sobs_stable(g);
                if o != src_obs {
                    return viol("roundtrip-differs", format!("loaded graph differs from the source: source {}, loaded {}", brief(&src_obs), brief(&o)));
                }
            }
            Loaded::M(gm) => {
                if as_graphmap_source {
                    // GraphMap -> GraphMap: same nodes in the same order, same edges and weights
                    let nodes: Vec<u32> = gm.nodes().collect();
                    let exp: Vec<u32> = src_obs.nodes.iter().map(|n| n.1).collect();
                    if nodes != exp {
                        return viol("roundtrip-differs", format!("GraphMap round trip: nodes {:?}, expected {:?}", nodes, exp));
                    }
                    let canon = |a: u32, b: u32| if Ty::is_directed() || a <= b { (a, b) } else { (b, a) };
                    let mut exp_e: std::collections::BTreeMap<(u32, u32), u32> = Default::default();
                    for e in &src_obs.edges {
                        exp_e.insert(canon(src_obs.nodes[e.1].1, src_obs.nodes[e.2].1), e.3);
                    }
                    let got_e: std::collections::BTreeMap<(u32, u32), u32> = gm.all_edges().map(|(a, b, w)| (canon(a, b), *w)).collect();
                    if got_e != exp_e {
                        return viol("roundtrip-differs", format!("GraphMap round trip: edges {:?}, expected {:?}", got_e, exp_e));
                    }
                }
            }
        }
        acc.probe("serde_roundtrip_identical");
    } else {
        acc.probe("serde_hostile_input_accepted");
    }
    // ---- whatever was handed back must be a consistent graph under further use
    let r = match loaded {
        Loaded::G(g) => deep_consistency("graph", g, cfg.width, cfg.follow_seed, cfg.follow_len, acc),
        Loaded::S(g) => deep_consistency("stable", g, cfg.width, cfg.follow_seed, cfg.follow_len, acc),
        Loaded::M(gm) => match catch(|| super::visit::check_graphmap_u32(&gm, cfg.follow_seed)) {
            Ok(Ok(())) => Ok(()),
            Ok(Err((c, d))) => Err((format!("loaded/visit-{}", c), d)),
            Err(p) => Err(("loaded/visit-panic".to_string(), p)),
        },
    };
    match r {
        Ok(()) => Exec { violation: None, nontrivial },
        Err((c, d)) => viol(&format!("corrupt-graph/{}", c), format!("the deserialiser returned Ok but the graph is not consistent: {}", d)),
    }
}
