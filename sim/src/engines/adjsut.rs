//! Adapter that exposes `Graph<u32,u32,Ty,Ix>` and `StableGraph<u32,u32,Ty,Ix>` through one
//! index-as-usize API, so a single history engine can drive both against the reference
//! model. Everything here only *calls* petgraph; no expectations live in this file.

use petgraph::data::{Build, Create, DataMap, DataMapMut, Element, FromElements};
use petgraph::graph::{EdgeIndex, Frozen, Graph, GraphError, IndexType, NodeIndex};
use petgraph::stable_graph::StableGraph;
use petgraph::visit::{EdgeRef, IntoEdgeReferences, IntoNodeReferences, NodeIndexable, EdgeIndexable, NodeRef};
use petgraph::{Directed, Direction, EdgeType, Undirected};
use serde::{Deserialize, Serialize};

pub trait Flip: EdgeType + 'static {
    type Other: EdgeType + Flip<Other = Self> + 'static;
}
impl Flip for Directed {
    type Other = Undirected;
}
impl Flip for Undirected {
    type Other = Directed;
}

#[derive(Clone, Copy, Debug, PartialEq, Eq)]
pub enum GErr {
    NodeIxLimit,
    EdgeIxLimit,
    /// an endpoint does not exist; payload = the index the error names, if it names one
    NodeMissing(Option<usize>),
}

fn gerr(e: GraphError) -> GErr {
    match e {
        GraphError::NodeIxLimit => GErr::NodeIxLimit,
        GraphError::EdgeIxLimit => GErr::EdgeIxLimit,
        GraphError::NodeMissed(i) => GErr::NodeMissing(Some(i)),
        GraphError::NodeOutBounds => GErr::NodeMissing(None),
    }
}

#[derive(Clone, Copy, Debug, PartialEq, Eq, Serialize, Deserialize)]
pub enum EdgeMode {
    Add,
    TryAdd,
    Update,
    TryUpdate,
    BuildAdd,
    BuildUpdate,
}
impl EdgeMode {
    pub fn is_try(self) -> bool {
        matches!(self, EdgeMode::TryAdd | EdgeMode::TryUpdate)
    }
    pub fn is_update(self) -> bool {
        matches!(self, EdgeMode::Update | EdgeMode::TryUpdate | EdgeMode::BuildUpdate)
    }
}

#[derive(Clone, Copy, Debug, PartialEq, Eq, Serialize, Deserialize)]
pub enum WHow {
    WeightMut,
    IndexMut,
    DataMapMut,
    FrozenIndexMut,
}

/// (index at the time of the call, weight seen, new weight written or None, kept?)
pub type VisitLog = Vec<(usize, u32, Option<u32>, bool)>;

pub type EdgeObs = (usize, usize, usize, u32);

#[derive(Clone, Debug, PartialEq, Default)]
pub struct NodeObs {
    pub a: usize,
    pub weight: Option<u32>,
    pub weight_datamap: Option<u32>,
    pub contains: Option<bool>,
    pub nbr: Vec<usize>,
    pub nbr_out: Vec<usize>,
    pub nbr_in: Vec<usize>,
    pub nbr_und: Vec<usize>,
    pub edges: Vec<EdgeObs>,
    pub edges_out: Vec<EdgeObs>,
    pub edges_in: Vec<EdgeObs>,
    pub walk_out: Vec<(usize, usize)>,
    pub walk_in: Vec<(usize, usize)>,
    pub walk_und: Vec<(usize, usize)>,
    pub walk_und_edges: Vec<usize>,
    pub walk_und_pairs: Vec<(usize, usize)>,
    pub walk_out_edges: Vec<usize>,
}

#[derive(Clone, Debug, PartialEq, Default)]
pub struct PairObs {
    pub a: usize,
    pub b: usize,
    pub find: Option<usize>,
    pub find_und: Option<(usize, bool)>, // (edge, is_outgoing)
    pub contains: bool,
    pub connecting: Vec<EdgeObs>,
}

#[derive(Clone, Debug, PartialEq, Default)]
pub struct Obs {
    pub directed: bool,
    pub node_count: usize,
    pub edge_count: usize,
    pub node_bound: usize,
    pub edge_bound: usize,
    pub node_indices: Vec<usize>,
    pub node_indices_rev: Vec<usize>,
    /// the four whole-graph iterators consumed from both ends in a fixed irregular pattern,
    /// put back into forward order: must equal the forward listings
    pub node_indices_meet: Vec<usize>,
    pub edge_indices_meet: Vec<usize>,
    pub node_refs_meet: Vec<(usize, u32)>,
    pub edge_refs_meet: Vec<EdgeObs>,
    /// size_hint() of the same four, taken before the first item
    pub size_hints: Vec<(usize, Option<usize>)>,
    /// `g[node]` / `g[edge]` for every element the listings report
    pub index_reads: Vec<(bool, usize, u32)>,
    /// violations of the Iterator protocol (count / last / nth / fold / size_hint, also after a
    /// consumed prefix) by any of the public iterators, and of the Visitable protocol on a
    /// visit map that was not created from this state
    pub protocol: Vec<String>,
    pub node_indices_len: usize,
    pub edge_indices: Vec<usize>,
    pub edge_indices_rev: Vec<usize>,
    pub node_weights: Vec<u32>,
    pub edge_weights: Vec<u32>,
    pub node_refs: Vec<(usize, u32)>,
    pub node_refs_rev: Vec<(usize, u32)>,
    pub edge_refs: Vec<EdgeObs>,
    pub edge_refs_rev: Vec<EdgeObs>,
    /// (edge index, weight, endpoints) for probed edge indices, live or not
    pub edge_probe: Vec<(usize, Option<u32>, Option<(usize, usize)>, Option<u32>)>,
    pub externals_out: Vec<usize>,
    pub externals_in: Vec<usize>,
    pub nodes: Vec<NodeObs>,
    pub pairs: Vec<PairObs>,
    /// Graph only: per probed node, the raw out / in chains via first_edge/next_edge
    pub chains: Vec<(usize, Vec<usize>, Vec<usize>)>,
    pub raw_lens: Option<(usize, usize)>,
}

pub struct ObsPlan {
    pub nodes: Vec<usize>,
    pub edges: Vec<usize>,
    pub pairs: Vec<(usize, usize)>,
}

pub trait AdjSut: Sized + Clone + 'static {
    type Flipped: AdjSut<Flipped = Self>;
    const STABLE: bool;
    fn create(cap: Option<(usize, usize)>, via_trait: bool) -> Self;
    fn directed() -> bool;
    fn flip(self) -> Self::Flipped;
    fn max_index() -> usize;

    fn add_node(&mut self, w: u32, via_build: bool) -> usize;
    fn try_add_node(&mut self, w: u32) -> Result<usize, GErr>;
    fn add_edge(&mut self, a: usize, b: usize, w: u32, mode: EdgeMode) -> Result<usize, GErr>;
    fn remove_node(&mut self, a: usize) -> Option<u32>;
    fn remove_edge(&mut self, e: usize) -> Option<u32>;
    /// false = the accessor returned None
    fn set_node_w(&mut self, a: usize, w: u32, how: WHow) -> bool;
    fn set_edge_w(&mut self, e: usize, w: u32, how: WHow) -> bool;
    /// kind: 0 = (node,node) 1 = (node,edge) 2 = (edge,node) 3 = (edge,edge)
    fn index_twice(&mut self, kind: u8, i: usize, j: usize, w1: u32, w2: u32, frozen: bool);
    /// `Frozen::index_twice_mut` where the type offers it (Graph), the plain one otherwise
    fn index_twice_frozen(&mut self, kind: u8, i: usize, j: usize, w1: u32, w2: u32);
    /// element stream of the own graph -> `filter_elements` -> `from_elements`; returns what the
    /// closure was shown: (is_node, position in its class, weight seen, kept, new weight)
    fn filter_elements_replace(&mut self, seed: u64, keep_n: u32, keep_e: u32, next_w: &mut u32) -> Vec<(bool, usize, u32, bool, u32)>;
    fn rewrite_node_weights(&mut self, next_w: &mut u32) -> Vec<(u32, u32)>;
    fn rewrite_edge_weights(&mut self, next_w: &mut u32) -> Vec<(u32, u32)>;
    fn retain_nodes(&mut self, seed: u64, keep_permille: u32, touch: bool, next_w: &mut u32, log: &mut VisitLog);
    fn retain_edges(&mut self, seed: u64, keep_permille: u32, touch: bool, next_w: &mut u32, log: &mut VisitLog);
    fn reverse(&mut self);
    fn clear(&mut self);
    fn clear_edges(&mut self);
    fn map_replace(&mut self, next_w: &mut u32, nlog: &mut VisitLog, elog: &mut VisitLog);
    fn filter_map_replace(&mut self, seed: u64, keep_n: u32, keep_e: u32, next_w: &mut u32, nlog: &mut VisitLog, elog: &mut VisitLog);
    /// `form` picks the `IntoWeightedEdge` implementation: 0 `(a, b, w)`, 1 `(a, b, &w)`,
    /// 2 `&(a, b, w)`, 3 `(a, b)` and 4 `&(a, b)` (the last two create Default weights)
    fn extend_with_edges(&mut self, edges: &[(usize, usize, u32)], form: u8);
    fn from_edges_replace(&mut self, edges: &[(usize, usize, u32)], form: u8);
    fn clone_replace(&mut self, clone_from: bool);
    /// `dest.clone_from(self)` where dest is `prev` (or a small unrelated graph); self becomes
    /// dest and the old self is returned
    fn clone_from_stash(&mut self, prev: Option<Self>) -> Self;
    /// Graph -> StableGraph -> Graph, or StableGraph -> Graph -> StableGraph
    fn roundtrip_other(&mut self);
    /// rebuild through FromElements from own node_references / edge_references (index order)
    fn from_elements_replace(&mut self);
    fn capacity_op(&mut self, which: u8, n: usize);
    fn snapshot(&self, plan: &ObsPlan) -> Obs;
    /// (index, weight) listings in index order
    fn node_listing(&self) -> Vec<(usize, u32)>;
    fn edge_listing(&self) -> Vec<(usize, u32)>;
    /// C06 step invariant through the visit traits (and adaptors)
    fn visit_check(&mut self, seed: u64) -> Result<(), crate::engines::visit::VErr>;
}

/// The element stream of a graph given as (index, weight) nodes and (a, b, weight) edges in
/// index order: node positions are ranks; `interleave` emits every edge right after the later
/// of its endpoints instead of after all nodes (both are legal streams).
pub fn element_stream(nodes: Vec<(usize, u32)>, edges: Vec<(usize, usize, u32)>, interleave: bool) -> Vec<Element<u32, u32>> {
    let rank: std::collections::BTreeMap<usize, usize> = nodes.iter().enumerate().map(|(r, n)| (n.0, r)).collect();
    let mut out = Vec::new();
    if !interleave {
        for n in &nodes {
            out.push(Element::Node { weight: n.1 });
        }
        for e in &edges {
            out.push(Element::Edge { source: rank[&e.0], target: rank[&e.1], weight: e.2 });
        }
    } else {
        for (r, n) in nodes.iter().enumerate() {
            out.push(Element::Node { weight: n.1 });
            for e in &edges {
                if rank[&e.0].max(rank[&e.1]) == r {
                    out.push(Element::Edge { source: rank[&e.0], target: rank[&e.1], weight: e.2 });
                }
            }
        }
    }
    out
}

/// Consume a double-ended iterator from both ends (which end next is read off the bits of a
/// fixed constant) and return the items in forward order.
pub fn meet_in_the_middle<I: DoubleEndedIterator>(mut it: I) -> Vec<I::Item> {
    let pattern: u64 = 0xB5AD_4ECE_DA1C_E2A9;
    let (mut front, mut back) = (Vec::new(), Vec::new());
    let mut k = 0u32;
    loop {
        let from_front = (pattern >> (k % 64)) & 1 == 1;
        k += 1;
        let x = if from_front { it.next() } else { it.next_back() };
        match x {
            Some(v) => {
                if from_front {
                    front.push(v)
                } else {
                    back.push(v)
                }
            }
            None => break,
        }
        assert!(front.len() + back.len() < 10_000_000, "a double-ended iterator does not terminate");
    }
    back.reverse();
    front.extend(back);
    front
}

#[inline]
pub fn keep_decision(w: u32, seed: u64, permille: u32) -> bool {
    (crate::core::mix(seed, w as u64) % 1000) < permille as u64
}

fn ni<Ix: IndexType>(i: usize) -> NodeIndex<Ix> {
    NodeIndex::new(i.min(<Ix as IndexType>::max().index()))
}
fn ei<Ix: IndexType>(i: usize) -> EdgeIndex<Ix> {
    EdgeIndex::new(i.min(<Ix as IndexType>::max().index()))
}

macro_rules! common_methods {
    () => {
        fn directed() -> bool {
            Ty::is_directed()
        }
        fn max_index() -> usize {
            <Ix as IndexType>::max().index()
        }
        fn add_node(&mut self, w: u32, via_build: bool) -> usize {
            if via_build {
                Build::add_node(self, w).index()
            } else {
                self.add_node(w).index()
            }
        }
        fn try_add_node(&mut self, w: u32) -> Result<usize, GErr> {
            self.try_add_node(w).map(|i| i.index()).map_err(gerr)
        }
        fn add_edge(&mut self, a: usize, b: usize, w: u32, mode: EdgeMode) -> Result<usize, GErr> {
            let (a, b) = (ni::<Ix>(a), ni::<Ix>(b));
            match mode {
                EdgeMode::Add => Ok(self.add_edge(a, b, w).index()),
                EdgeMode::TryAdd => self.try_add_edge(a, b, w).map(|e| e.index()).map_err(gerr),
                EdgeMode::Update => Ok(self.update_edge(a, b, w).index()),
                EdgeMode::TryUpdate => self.try_update_edge(a, b, w).map(|e| e.index()).map_err(gerr),
                EdgeMode::BuildAdd => Ok(Build::add_edge(self, a, b, w).expect("Build::add_edge returned None on a multigraph type").index()),
                EdgeMode::BuildUpdate => Ok(Build::update_edge(self, a, b, w).index()),
            }
        }
        fn remove_node(&mut self, a: usize) -> Option<u32> {
            self.remove_node(ni::<Ix>(a))
        }
        fn remove_edge(&mut self, e: usize) -> Option<u32> {
            self.remove_edge(ei::<Ix>(e))
        }
        fn set_node_w(&mut self, a: usize, w: u32, how: WHow) -> bool {
            let a = ni::<Ix>(a);
            match how {
                WHow::WeightMut => match self.node_weight_mut(a) {
                    Some(x) => {
                        *x = w;
                        true
                    }
                    None => false,
                },
                WHow::IndexMut => {
                    self[a] = w;
                    true
                }
                WHow::DataMapMut => match DataMapMut::node_weight_mut(self, a) {
                    Some(x) => {
                        *x = w;
                        true
                    }
                    None => false,
                },
                WHow::FrozenIndexMut => {
                    let mut f = Frozen::new(self);
                    f[a] = w;
                    true
                }
            }
        }
        fn set_edge_w(&mut self, e: usize, w: u32, how: WHow) -> bool {
            let e = ei::<Ix>(e);
            match how {
                WHow::WeightMut => match self.edge_weight_mut(e) {
                    Some(x) => {
                        *x = w;
                        true
                    }
                    None => false,
                },
                WHow::IndexMut => {
                    self[e] = w;
                    true
                }
                WHow::DataMapMut => match DataMapMut::edge_weight_mut(self, e) {
                    Some(x) => {
                        *x = w;
                        true
                    }
                    None => false,
                },
                WHow::FrozenIndexMut => {
                    let mut f = Frozen::new(self);
                    f[e] = w;
                    true
                }
            }
        }
        fn rewrite_node_weights(&mut self, next_w: &mut u32) -> Vec<(u32, u32)> {
            let mut log = Vec::new();
            for x in self.node_weights_mut() {
                *next_w += 1;
                log.push((*x, *next_w));
                *x = *next_w;
            }
            log
        }
        fn rewrite_edge_weights(&mut self, next_w: &mut u32) -> Vec<(u32, u32)> {
            let mut log = Vec::new();
            for x in self.edge_weights_mut() {
                *next_w += 1;
                log.push((*x, *next_w));
                *x = *next_w;
            }
            log
        }
        fn retain_nodes(&mut self, seed: u64, keep_permille: u32, touch: bool, next_w: &mut u32, log: &mut VisitLog) {
            self.retain_nodes(|mut fr, ix| {
                let w = fr[ix];
                // read through the proxy as well
                let _ = fr.neighbors(ix).count() + fr.node_count();
                let keep = keep_decision(w, seed, keep_permille);
                let mut nw = None;
                if touch && keep {
                    *next_w += 1;
                    fr[ix] = *next_w;
                    nw = Some(*next_w);
                }
                log.push((ix.index(), w, nw, keep));
                keep
            });
        }
        fn retain_edges(&mut self, seed: u64, keep_permille: u32, touch: bool, next_w: &mut u32, log: &mut VisitLog) {
            self.retain_edges(|mut fr, ix| {
                let w = fr[ix];
                let _ = fr.edge_endpoints(ix).map(|(a, _)| fr.neighbors(a).count());
                let keep = keep_decision(w, seed, keep_permille);
                let mut nw = None;
                if touch && keep {
                    *next_w += 1;
                    fr[ix] = *next_w;
                    nw = Some(*next_w);
                }
                log.push((ix.index(), w, nw, keep));
                keep
            });
        }
        fn reverse(&mut self) {
            self.reverse()
        }
        fn clear(&mut self) {
            self.clear()
        }
        fn clear_edges(&mut self) {
            self.clear_edges()
        }
        fn map_replace(&mut self, next_w: &mut u32, nlog: &mut VisitLog, elog: &mut VisitLog) {
            let cell = std::cell::RefCell::new(next_w);
            let g2 = self.map(
                |ix, w| {
                    let mut c = cell.borrow_mut();
                    **c += 1;
                    nlog.push((ix.index(), *w, Some(**c), true));
                    **c
                },
                |ix, w| {
                    let mut c = cell.borrow_mut();
                    **c += 1;
                    elog.push((ix.index(), *w, Some(**c), true));
                    **c
                },
            );
            *self = g2;
        }
        fn filter_map_replace(&mut self, seed: u64, keep_n: u32, keep_e: u32, next_w: &mut u32, nlog: &mut VisitLog, elog: &mut VisitLog) {
            let cell = std::cell::RefCell::new(next_w);
            let g2 = self.filter_map(
                |ix, w| {
                    let keep = keep_decision(*w, seed, keep_n);
                    if keep {
                        let mut c = cell.borrow_mut();
                        **c += 1;
                        nlog.push((ix.index(), *w, Some(**c), true));
                        Some(**c)
                    } else {
                        nlog.push((ix.index(), *w, None, false));
                        None
                    }
                },
                |ix, w| {
                    let keep = keep_decision(*w, seed ^ 0xE, keep_e);
                    if keep {
                        let mut c = cell.borrow_mut();
                        **c += 1;
                        elog.push((ix.index(), *w, Some(**c), true));
                        Some(**c)
                    } else {
                        elog.push((ix.index(), *w, None, false));
                        None
                    }
                },
            );
            *self = g2;
        }
        fn extend_with_edges(&mut self, edges: &[(usize, usize, u32)], form: u8) {
            match form {
                1 => self.extend_with_edges(edges.iter().map(|(a, b, w)| (ni::<Ix>(*a), ni::<Ix>(*b), w))),
                2 => {
                    let v: Vec<(NodeIndex<Ix>, NodeIndex<Ix>, u32)> = edges.iter().map(|&(a, b, w)| (ni::<Ix>(a), ni::<Ix>(b), w)).collect();
                    self.extend_with_edges(v.iter())
                }
                3 => self.extend_with_edges(edges.iter().map(|&(a, b, _)| (ni::<Ix>(a), ni::<Ix>(b)))),
                4 => {
                    let v: Vec<(NodeIndex<Ix>, NodeIndex<Ix>)> = edges.iter().map(|&(a, b, _)| (ni::<Ix>(a), ni::<Ix>(b))).collect();
                    self.extend_with_edges(v.iter())
                }
                _ => self.extend_with_edges(edges.iter().map(|&(a, b, w)| (ni::<Ix>(a), ni::<Ix>(b), w))),
            }
        }
        fn from_edges_replace(&mut self, edges: &[(usize, usize, u32)], form: u8) {
            *self = match form {
                1 => Self::from_edges(edges.iter().map(|(a, b, w)| (ni::<Ix>(*a), ni::<Ix>(*b), w))),
                2 => {
                    let v: Vec<(NodeIndex<Ix>, NodeIndex<Ix>, u32)> = edges.iter().map(|&(a, b, w)| (ni::<Ix>(a), ni::<Ix>(b), w)).collect();
                    Self::from_edges(v.iter())
                }
                3 => Self::from_edges(edges.iter().map(|&(a, b, _)| (ni::<Ix>(a), ni::<Ix>(b)))),
                4 => {
                    let v: Vec<(NodeIndex<Ix>, NodeIndex<Ix>)> = edges.iter().map(|&(a, b, _)| (ni::<Ix>(a), ni::<Ix>(b))).collect();
                    Self::from_edges(v.iter())
                }
                _ => Self::from_edges(edges.iter().map(|&(a, b, w)| (ni::<Ix>(a), ni::<Ix>(b), w))),
            };
        }
        fn clone_from_stash(&mut self, prev: Option<Self>) -> Self {
            let mut dest = prev.unwrap_or_else(|| {
                let mut other = Self::with_capacity(0, 0);
                let x = other.add_node(1);
                let y = other.add_node(2);
                let z = other.add_node(3);
                other.add_edge(y, x, 4);
                other.add_edge(z, z, 5);
                other.add_edge(x, z, 6);
                other.remove_node(y);
                other
            });
            dest.clone_from(self);
            std::mem::replace(self, dest)
        }
        fn clone_replace(&mut self, clone_from: bool) {
            if clone_from {
                // target with unrelated content, to exercise clone_from's overwrite
                let mut other = Self::with_capacity(0, 0);
                let x = other.add_node(1);
                let y = other.add_node(2);
                other.add_edge(x, y, 3);
                other.remove_node(x);
                other.clone_from(self);
                *self = other;
            } else {
                let c = self.clone();
                *self = c;
            }
        }
        fn from_elements_replace(&mut self) {
            // positions in the element stream are ranks among live nodes
            let mut rank = std::collections::BTreeMap::new();
            let mut elements: Vec<Element<u32, u32>> = Vec::new();
            for (r, n) in self.node_references().enumerate() {
                rank.insert(n.id().index(), r);
                elements.push(Element::Node { weight: *n.weight() });
            }
            for e in self.edge_references() {
                elements.push(Element::Edge {
                    source: rank[&e.source().index()],
                    target: rank[&e.target().index()],
                    weight: *e.weight(),
                });
            }
            *self = <Self as FromElements>::from_elements(elements);
        }
        fn node_listing(&self) -> Vec<(usize, u32)> {
            self.node_references().map(|n| (n.id().index(), *n.weight())).collect()
        }
        fn edge_listing(&self) -> Vec<(usize, u32)> {
            self.edge_references().map(|e| (e.id().index(), *e.weight())).collect()
        }
        fn filter_elements_replace(&mut self, seed: u64, keep_n: u32, keep_e: u32, next_w: &mut u32) -> Vec<(bool, usize, u32, bool, u32)> {
            use petgraph::data::ElementIterator;
            let elements = element_stream(
                self.node_references().map(|n| (n.id().index(), *n.weight())).collect(),
                self.edge_references().map(|e| (e.source().index(), e.target().index(), *e.weight())).collect(),
                seed & 1 == 1,
            );
            let mut log = Vec::new();
            let (mut npos, mut epos) = (0usize, 0usize);
            let it = elements.into_iter().filter_elements(|elt| match elt {
                Element::Node { weight } => {
                    let keep = keep_decision(*weight, seed, keep_n);
                    let seen = *weight;
                    if keep {
                        *next_w += 1;
                        *weight = *next_w;
                    }
                    log.push((true, npos, seen, keep, *weight));
                    npos += 1;
                    keep
                }
                Element::Edge { weight, .. } => {
                    let keep = keep_decision(*weight, seed ^ 0xE, keep_e);
                    let seen = *weight;
                    if keep {
                        *next_w += 1;
                        *weight = *next_w;
                    }
                    log.push((false, epos, seen, keep, *weight));
                    epos += 1;
                    keep
                }
            });
            let g = <Self as FromElements>::from_elements(it);
            *self = g;
            log
        }
        fn index_twice(&mut self, kind: u8, i: usize, j: usize, w1: u32, w2: u32, frozen: bool) {
            if frozen {
                return self.index_twice_frozen(kind, i, j, w1, w2);
            }
            match kind {
                0 => {
                    let (x, y) = self.index_twice_mut(ni::<Ix>(i), ni::<Ix>(j));
                    *x = w1;
                    *y = w2;
                }
                1 => {
                    let (x, y) = self.index_twice_mut(ni::<Ix>(i), ei::<Ix>(j));
                    *x = w1;
                    *y = w2;
                }
                2 => {
                    let (x, y) = self.index_twice_mut(ei::<Ix>(i), ni::<Ix>(j));
                    *x = w1;
                    *y = w2;
                }
                _ => {
                    let (x, y) = self.index_twice_mut(ei::<Ix>(i), ei::<Ix>(j));
                    *x = w1;
                    *y = w2;
                }
            }
        }
    };
}

macro_rules! snapshot_common {
    ($self:ident, $plan:ident, $obs:ident) => {{
        let g = $self;
        $obs.directed = g.is_directed();
        $obs.node_count = g.node_count();
        $obs.edge_count = g.edge_count();
        $obs.node_bound = NodeIndexable::node_bound(g);
        $obs.edge_bound = EdgeIndexable::edge_bound(g);
        $obs.node_indices = g.node_indices().map(|i| i.index()).collect();
        $obs.node_indices_rev = g.node_indices().rev().map(|i| i.index()).collect();
        $obs.edge_indices = g.edge_indices().map(|i| i.index()).collect();
        $obs.edge_indices_rev = g.edge_indices().rev().map(|i| i.index()).collect();
        $obs.node_weights = g.node_weights().copied().collect();
        $obs.edge_weights = g.edge_weights().copied().collect();
        $obs.node_refs = g.node_references().map(|n| (n.id().index(), *n.weight())).collect();
        $obs.node_refs_rev = g.node_references().rev().map(|n| (n.id().index(), *n.weight())).collect();
        $obs.edge_refs = g.edge_references().map(|e| (e.id().index(), e.source().index(), e.target().index(), *e.weight())).collect();
        $obs.edge_refs_rev = g.edge_references().rev().map(|e| (e.id().index(), e.source().index(), e.target().index(), *e.weight())).collect();
        $obs.node_indices_meet = meet_in_the_middle(g.node_indices()).into_iter().map(|i| i.index()).collect();
        $obs.edge_indices_meet = meet_in_the_middle(g.edge_indices()).into_iter().map(|i| i.index()).collect();
        $obs.node_refs_meet = meet_in_the_middle(g.node_references()).into_iter().map(|n| (n.id().index(), *n.weight())).collect();
        $obs.edge_refs_meet = meet_in_the_middle(g.edge_references()).into_iter().map(|e| (e.id().index(), e.source().index(), e.target().index(), *e.weight())).collect();
        $obs.size_hints = vec![g.node_indices().size_hint(), g.edge_indices().size_hint(), g.node_references().size_hint(), g.edge_references().size_hint()];
        for i in g.node_indices() {
            $obs.index_reads.push((true, i.index(), g[i]));
        }
        for e in g.edge_indices() {
            $obs.index_reads.push((false, e.index(), g[e]));
        }
        for &e in &$plan.edges {
            let ix = ei::<Ix>(e);
            $obs.edge_probe.push((
                e,
                g.edge_weight(ix).copied(),
                g.edge_endpoints(ix).map(|(a, b)| (a.index(), b.index())),
                DataMap::edge_weight(g, ix).copied(),
            ));
        }
        $obs.externals_out = g.externals(Direction::Outgoing).map(|i| i.index()).collect();
        $obs.externals_in = g.externals(Direction::Incoming).map(|i| i.index()).collect();
        for &a in &$plan.nodes {
            let ix = ni::<Ix>(a);
            let mut no = NodeObs { a, ..Default::default() };
            no.weight = g.node_weight(ix).copied();
            no.weight_datamap = DataMap::node_weight(g, ix).copied();
            no.nbr = g.neighbors(ix).map(|i| i.index()).collect();
            no.nbr_out = g.neighbors_directed(ix, Direction::Outgoing).map(|i| i.index()).collect();
            no.nbr_in = g.neighbors_directed(ix, Direction::Incoming).map(|i| i.index()).collect();
            no.nbr_und = g.neighbors_undirected(ix).map(|i| i.index()).collect();
            no.edges = g.edges(ix).map(|e| (e.id().index(), e.source().index(), e.target().index(), *e.weight())).collect();
            no.edges_out = g.edges_directed(ix, Direction::Outgoing).map(|e| (e.id().index(), e.source().index(), e.target().index(), *e.weight())).collect();
            no.edges_in = g.edges_directed(ix, Direction::Incoming).map(|e| (e.id().index(), e.source().index(), e.target().index(), *e.weight())).collect();
            let mut w = g.neighbors_directed(ix, Direction::Outgoing).detach();
            while let Some((e, n)) = w.next(g) {
                no.walk_out.push((e.index(), n.index()));
                if no.walk_out.len() > 100_000 { panic!("detached walker does not terminate"); }
            }
            let mut w = g.neighbors_directed(ix, Direction::Incoming).detach();
            while let Some((e, n)) = w.next(g) {
                no.walk_in.push((e.index(), n.index()));
                if no.walk_in.len() > 100_000 { panic!("detached walker does not terminate"); }
            }
            let mut w = g.neighbors_undirected(ix).detach();
            while let Some(n) = w.next_node(g) {
                no.walk_und.push((0, n.index()));
                if no.walk_und.len() > 100_000 { panic!("detached walker does not terminate"); }
            }
            // the three stepping methods of one walker kind must tell the same story
            let mut w = g.neighbors_undirected(ix).detach();
            while let Some(e) = w.next_edge(g) {
                no.walk_und_edges.push(e.index());
                if no.walk_und_edges.len() > 100_000 { panic!("detached walker does not terminate"); }
            }
            let mut w = g.neighbors_undirected(ix).detach();
            while let Some((e, n)) = w.next(g) {
                no.walk_und_pairs.push((e.index(), n.index()));
                if no.walk_und_pairs.len() > 100_000 { panic!("detached walker does not terminate"); }
            }
            let mut w = g.neighbors_directed(ix, Direction::Outgoing).detach();
            while let Some(e) = w.next_edge(g) {
                no.walk_out_edges.push(e.index());
                if no.walk_out_edges.len() > 100_000 { panic!("detached walker does not terminate"); }
            }
            $obs.nodes.push(no);
        }
        {
            use crate::engines::iter_protocol as ip;
            let salt = ($plan.nodes.len() * 31 + $plan.edges.len() * 7 + g.edge_count()) as u64;
            let mut errs: Vec<String> = Vec::new();
            let mut chk = |r: Result<(), String>| if let Err(e) = r { errs.push(e) };
            // the battery costs about ten passes per iterator: on a third of the observations
            if salt % 3 == 0 {
            chk(ip("node_indices()", || g.node_indices(), |i| i.index(), salt));
            chk(ip("edge_indices()", || g.edge_indices(), |i| i.index(), salt));
            chk(ip("node_weights()", || g.node_weights(), |w| **w, salt));
            chk(ip("edge_weights()", || g.edge_weights(), |w| **w, salt));
            chk(ip("node_references()", || g.node_references(), |n| (n.id().index(), *n.weight()), salt));
            chk(ip("edge_references()", || g.edge_references(), |e| (e.id().index(), e.source().index(), e.target().index(), *e.weight()), salt));
            chk(ip("externals(Outgoing)", || g.externals(Direction::Outgoing), |i| i.index(), salt));
            chk(ip("externals(Incoming)", || g.externals(Direction::Incoming), |i| i.index(), salt));
            // per-node iterators on a few of the probed nodes (rotating with the plan)
            let np = $plan.nodes.len();
            for t in 0..np.min(3) {
                let a = $plan.nodes[(salt as usize + t * 5) % np];
                let ix = ni::<Ix>(a);
                chk(ip(&format!("neighbors({})", a), || g.neighbors(ix), |i| i.index(), salt));
                chk(ip(&format!("neighbors_directed({}, Outgoing)", a), || g.neighbors_directed(ix, Direction::Outgoing), |i| i.index(), salt));
                chk(ip(&format!("neighbors_directed({}, Incoming)", a), || g.neighbors_directed(ix, Direction::Incoming), |i| i.index(), salt));
                chk(ip(&format!("neighbors_undirected({})", a), || g.neighbors_undirected(ix), |i| i.index(), salt));
                chk(ip(&format!("edges({})", a), || g.edges(ix), |e| (e.id().index(), e.source().index(), e.target().index(), *e.weight()), salt));
                chk(ip(&format!("edges_directed({}, Outgoing)", a), || g.edges_directed(ix, Direction::Outgoing), |e| (e.id().index(), e.source().index(), e.target().index(), *e.weight()), salt));
                chk(ip(&format!("edges_directed({}, Incoming)", a), || g.edges_directed(ix, Direction::Incoming), |e| (e.id().index(), e.source().index(), e.target().index(), *e.weight()), salt));
            }
            if let Some(&(a, b)) = $plan.pairs.get(salt as usize % $plan.pairs.len().max(1)) {
                chk(ip(&format!("edges_connecting({}, {})", a, b), || g.edges_connecting(ni::<Ix>(a), ni::<Ix>(b)), |e| (e.id().index(), e.source().index(), e.target().index(), *e.weight()), salt));
            }
            }
            // a visit map that does not come from this state (empty, as in `DfsSpace::default()`
            // or a walker recycled from a smaller graph): reset_map must size it for this graph
            {
                use petgraph::visit::{VisitMap, Visitable};
                let mut fresh = fixedbitset::FixedBitSet::new();
                Visitable::reset_map(g, &mut fresh);
                for i in g.node_indices() {
                    if fresh.is_visited(&i) {
                        errs.push(format!("reset_map on an empty map leaves node {} visited", i.index()));
                    }
                    if !fresh.visit(i) {
                        errs.push(format!("visit({}) after reset_map on an empty map returned false", i.index()));
                    }
                }
                let mut small = fixedbitset::FixedBitSet::with_capacity(1);
                small.insert(0);
                Visitable::reset_map(g, &mut small);
                for i in g.node_indices() {
                    if small.is_visited(&i) {
                        errs.push(format!("reset_map on a smaller used map leaves node {} visited", i.index()));
                    }
                    small.visit(i);
                }
            }
            $obs.protocol = errs;
        }
        for &(a, b) in &$plan.pairs {
            let (ia, ib) = (ni::<Ix>(a), ni::<Ix>(b));
            $obs.pairs.push(PairObs {
                a,
                b,
                find: g.find_edge(ia, ib).map(|e| e.index()),
                find_und: g.find_edge_undirected(ia, ib).map(|(e, d)| (e.index(), d == Direction::Outgoing)),
                contains: g.contains_edge(ia, ib),
                connecting: g.edges_connecting(ia, ib).map(|e| (e.id().index(), e.source().index(), e.target().index(), *e.weight())).collect(),
            });
        }
    }};
}

impl<Ty: Flip, Ix: IndexType> AdjSut for Graph<u32, u32, Ty, Ix> {
    type Flipped = Graph<u32, u32, Ty::Other, Ix>;
    const STABLE: bool = false;
    fn create(cap: Option<(usize, usize)>, via_trait: bool) -> Self {
        match (cap, via_trait) {
            (Some((n, e)), true) => <Self as Create>::with_capacity(n, e),
            (Some((n, e)), false) => Graph::with_capacity(n, e),
            (None, _) => Graph::default(),
        }
    }
    fn flip(self) -> Self::Flipped {
        self.into_edge_type()
    }
    common_methods!();
    fn roundtrip_other(&mut self) {
        let g = std::mem::take(self);
        let s: StableGraph<u32, u32, Ty, Ix> = StableGraph::from(g);
        *self = Graph::from(s);
    }
    fn index_twice_frozen(&mut self, kind: u8, i: usize, j: usize, w1: u32, w2: u32) {
        let mut f = petgraph::graph::Frozen::new(self);
        match kind {
            0 => {
                let (x, y) = f.index_twice_mut(ni::<Ix>(i), ni::<Ix>(j));
                *x = w1;
                *y = w2;
            }
            1 => {
                let (x, y) = f.index_twice_mut(ni::<Ix>(i), ei::<Ix>(j));
                *x = w1;
                *y = w2;
            }
            2 => {
                let (x, y) = f.index_twice_mut(ei::<Ix>(i), ni::<Ix>(j));
                *x = w1;
                *y = w2;
            }
            _ => {
                let (x, y) = f.index_twice_mut(ei::<Ix>(i), ei::<Ix>(j));
                *x = w1;
                *y = w2;
            }
        }
    }
    fn visit_check(&mut self, seed: u64) -> Result<(), crate::engines::visit::VErr> {
        crate::engines::visit::check_graph(self, seed)?;
        crate::engines::visit::check_frozen_graph(self, seed)
    }
    fn capacity_op(&mut self, which: u8, n: usize) {
        match which % 7 {
            0 => self.reserve_nodes(n),
            1 => self.reserve_edges(n),
            2 => self.reserve_exact_nodes(n),
            3 => self.reserve_exact_edges(n),
            4 => self.shrink_to_fit_nodes(),
            5 => self.shrink_to_fit_edges(),
            _ => self.shrink_to_fit(),
        }
        let (cn, ce) = self.capacity();
        assert!(cn >= self.node_count() && ce >= self.edge_count(), "capacity below element count");
    }
    fn snapshot(&self, plan: &ObsPlan) -> Obs {
        let mut obs = Obs::default();
        snapshot_common!(self, plan, obs);
        obs.node_indices_len = self.node_indices().len();
        obs.raw_lens = Some((self.raw_nodes().len(), self.raw_edges().len()));
        for &a in &plan.nodes {
            let ix = ni::<Ix>(a);
            let mut chains = [Vec::new(), Vec::new()];
            for (k, d) in [Direction::Outgoing, Direction::Incoming].into_iter().enumerate() {
                let mut cur = self.first_edge(ix, d);
                while let Some(e) = cur {
                    chains[k].push(e.index());
                    if chains[k].len() > 100_000 {
                        panic!("first_edge/next_edge chain does not terminate");
                    }
                    cur = self.next_edge(e, d);
                }
            }
            let [o, i] = chains;
            obs.chains.push((a, o, i));
        }
        obs
    }
}

impl<Ty: Flip, Ix: IndexType> AdjSut for StableGraph<u32, u32, Ty, Ix> {
    type Flipped = StableGraph<u32, u32, Ty::Other, Ix>;
    const STABLE: bool = true;
    fn create(cap: Option<(usize, usize)>, via_trait: bool) -> Self {
        match (cap, via_trait) {
            (Some((n, e)), true) => <Self as Create>::with_capacity(n, e),
            (Some((n, e)), false) => StableGraph::with_capacity(n, e),
            (None, _) => StableGraph::default(),
        }
    }
    fn flip(self) -> Self::Flipped {
        // StableGraph has no into_edge_type; the engine never issues the op for it.
        unreachable!("into_edge_type is not part of StableGraph's API")
    }
    common_methods!();
    fn roundtrip_other(&mut self) {
        let s = std::mem::take(self);
        let g: Graph<u32, u32, Ty, Ix> = Graph::from(s);
        *self = StableGraph::from(g);
    }
    fn index_twice_frozen(&mut self, kind: u8, i: usize, j: usize, w1: u32, w2: u32) {
        self.index_twice(kind, i, j, w1, w2, false)
    }
    fn visit_check(&mut self, seed: u64) -> Result<(), crate::engines::visit::VErr> {
        crate::engines::visit::check_stable(self, seed)?;
        crate::engines::visit::check_frozen_stable(self, seed)
    }
    fn capacity_op(&mut self, _which: u8, _n: usize) {
        let (cn, ce) = self.capacity();
        assert!(cn >= self.node_count() && ce >= self.edge_count(), "capacity below element count");
    }
    fn snapshot(&self, plan: &ObsPlan) -> Obs {
        let mut obs = Obs::default();
        snapshot_common!(self, plan, obs);
        obs.node_indices_len = self.node_indices().count();
        for (k, &a) in plan.nodes.iter().enumerate() {
            obs.nodes[k].contains = Some(self.contains_node(ni::<Ix>(a)));
        }
        obs
    }
}
