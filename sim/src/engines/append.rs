//! C05 — `Csr` and `adj::List`, the append-only graphs, report exactly what was inserted.

use super::{Exec, History, OpFeed, Width};
use crate::core::{catch, Acc, Rng, StateHasher, Tier, Violation};
use petgraph::adj::List;
use petgraph::csr::Csr;
use petgraph::data::{Build, DataMap, DataMapMut};
use petgraph::graph::IndexType;
use petgraph::visit::{EdgeCount, EdgeRef, IntoEdgeReferences, IntoEdges, IntoNeighbors, IntoNodeIdentifiers, NodeCount};
use petgraph::{Directed, EdgeType, Undirected};
use serde::{Deserialize, Serialize};
use std::collections::BTreeMap;

fn sorted<T: Ord + Clone>(v: &[T]) -> Vec<T> {
    let mut v = v.to_vec();
    v.sort();
    v
}

// =======================================================================================
// Csr
// =======================================================================================

#[derive(Clone, Debug, Serialize, Deserialize)]
pub struct CsrCfg {
    pub directed: bool,
    pub width: Width,
    pub with_nodes: Option<usize>,
    /// wide runs build rows of 25..45 neighbours (both sides of the 32-entry cutoff)
    pub wide: bool,
    pub fault_permille: u32,
    pub obs_seed: u64,
    /// start from a graph that is a few nodes short of 256 (the whole u8 index space) or of
    /// 1100, and let the history grow it past that
    #[serde(default)]
    pub many: bool,
}

#[derive(Clone, Debug, Serialize, Deserialize)]
pub enum CsrOp {
    AddNode,
    AddEdge { a: usize, b: usize, try_: bool },
    ClearEdges,
    SetNodeW(usize),
    /// directed only: replace the graph by from_sorted_edges(list) if that succeeds.
    /// mutation: 0 none, 1 swap two neighbouring entries, 2 duplicate an entry, 3 reverse
    FromSorted { edges: Vec<(usize, usize)>, mutation: u8, at: usize },
    Clone,
    /// k edges from `a` to seeded targets (fills one row)
    BulkRow { a: usize, k: usize, seed: u64 },
}

impl CsrOp {
    fn kind(&self) -> (&'static str, u8) {
        match self {
            CsrOp::AddNode => ("add_node", 0),
            CsrOp::AddEdge { try_: false, .. } => ("add_edge", 1),
            CsrOp::AddEdge { .. } => ("try_add_edge", 2),
            CsrOp::ClearEdges => ("clear_edges", 3),
            CsrOp::SetNodeW(_) => ("node_weight_mut", 4),
            CsrOp::FromSorted { .. } => ("from_sorted_edges", 5),
            CsrOp::Clone => ("clone", 6),
            CsrOp::BulkRow { .. } => ("bulk_row", 7),
        }
    }
}

#[derive(Clone, Default)]
pub struct CsrModel {
    pub directed: bool,
    pub nodes: Vec<u32>,
    /// row entries: for undirected graphs both (a,b) and (b,a) are present
    pub rows: BTreeMap<(usize, usize), u32>,
}

impl CsrModel {
    fn edge_count(&self) -> usize {
        if self.directed {
            self.rows.len()
        } else {
            self.rows.keys().filter(|k| k.0 <= k.1).count()
        }
    }
    fn row(&self, a: usize) -> Vec<(usize, u32)> {
        self.rows.range((a, 0)..=(a, usize::MAX)).map(|(k, w)| (k.1, *w)).collect()
    }
    fn hash(&self) -> u64 {
        let mut h = StateHasher::new();
        h.add(self.directed as u64);
        h.add(self.nodes.len() as u64);
        for k in self.rows.keys() {
            h.add(((k.0 as u64) << 32) | k.1 as u64);
        }
        h.finish()
    }
}

pub struct CsrEngine {
    pub visit: bool,
}

impl History for CsrEngine {
    type Cfg = CsrCfg;
    type Op = CsrOp;
    fn name(&self) -> &'static str {
        if self.visit {
            "csr-visit"
        } else {
            "csr"
        }
    }
    fn rule(&self) -> &'static str {
        "history with >= 3 applied operations and >= 2 edges inserted in non-sorted order or a from_sorted_edges call"
    }
    fn gen_cfg(&self, rng: &mut Rng, tier: Tier) -> (CsrCfg, usize) {
        let wide = rng.chance(1, 6);
        // (not in the visit engines: their battery compares all pairs of nodes in every view)
        let many = !wide && !self.visit && rng.chance(1, 60);
        let base = if tier == Tier::Thorough { 30 } else { 20 };
        let len = if wide { rng.range(10, 50) } else if many { rng.range(8, 30) } else { rng.geometric(1, base, 90) };
        let width = Width::pick(rng);
        (
            CsrCfg {
                directed: rng.chance(1, 2),
                width,
                with_nodes: if many { Some(if width == Width::U8 || rng.chance(1, 2) { rng.range(252, 255) } else { rng.range(1020, 1026) }) } else if rng.chance(1, 2) { Some(if wide { rng.range(40, 60) } else { rng.below(8) }) } else { None },
                many,
                wide,
                fault_permille: *rng.pick(&[0u32, 50, 200]),
                obs_seed: rng.next_u64(),
            },
            len,
        )
    }
    fn execute(&self, cfg: &CsrCfg, feed: OpFeed<CsrOp>, acc: &mut Acc, ops: &mut Vec<CsrOp>) -> Exec {
        macro_rules! go {
            ($ix:ty) => {
                if cfg.directed {
                    run_csr::<Directed, $ix>(self.name(), self.visit, cfg, feed, acc, ops)
                } else {
                    run_csr::<Undirected, $ix>(self.name(), self.visit, cfg, feed, acc, ops)
                }
            };
        }
        match cfg.width {
            Width::U8 => go!(u8),
            Width::U16 => go!(u16),
            Width::U32 => go!(u32),
            Width::Usize => go!(usize),
        }
    }
}

fn gen_csr_op(rng: &mut Rng, cfg: &CsrCfg, m: &CsrModel, step: usize) -> CsrOp {
    let n = m.nodes.len();
    let maxn = if cfg.many { 1300 } else if cfg.wide { 64 } else { 10 };
    let node = |rng: &mut Rng| -> usize {
        if n == 0 || (rng.below(1000) as u32) < cfg.fault_permille {
            n + rng.below(3)
        } else {
            rng.below(n)
        }
    };
    if cfg.wide && step < 3 && n >= 30 {
        return CsrOp::BulkRow { a: rng.below(n), k: rng.range(25, 45), seed: rng.next_u64() };
    }
    match rng.below(100) {
        0..=14 if n < maxn => CsrOp::AddNode,
        15..=39 if cfg.many && n < maxn => CsrOp::AddNode,
        0..=69 => {
            // wide runs: keep hitting the long rows
            let a = if cfg.wide && rng.chance(2, 3) && n > 0 {
                let mut best = 0;
                let mut best_len = 0;
                for i in 0..n {
                    let l = m.row(i).len();
                    if l > best_len {
                        best = i;
                        best_len = l;
                    }
                }
                best
            } else {
                node(rng)
            };
            CsrOp::AddEdge { a, b: node(rng), try_: rng.chance(1, 2) }
        }
        70..=72 => CsrOp::ClearEdges,
        73..=77 => CsrOp::SetNodeW(node(rng)),
        78..=89 if cfg.directed => {
            // a sorted list: either the current edge set, or a random one
            let mut edges: Vec<(usize, usize)> = if rng.chance(1, 2) && !m.rows.is_empty() {
                m.rows.keys().copied().collect()
            } else {
                let hi = rng.range(1, 8);
                let k = rng.below(10);
                let mut v: Vec<(usize, usize)> = (0..k).map(|_| (rng.below(hi), rng.below(hi))).collect();
                v.sort();
                v.dedup();
                v
            };
            edges.truncate(40);
            CsrOp::FromSorted { edges, mutation: *rng.pick(&[0u8, 0, 1, 2, 3]), at: rng.below(40) }
        }
        90..=91 => CsrOp::Clone,
        92..=95 if cfg.wide && n > 0 => CsrOp::BulkRow { a: rng.below(n), k: rng.range(5, 20), seed: rng.next_u64() },
        _ => {
            if n < maxn {
                CsrOp::AddNode
            } else {
                CsrOp::AddEdge { a: node(rng), b: node(rng), try_: true }
            }
        }
    }
}

trait CsrDir<Ix: IndexType>: EdgeType + Sized + super::visit::CsrVisit<Ix> {
    fn from_sorted(edges: &[(Ix, Ix, u32)]) -> Option<Result<Csr<u32, u32, Self, Ix>, ()>>;
}
impl<Ix: IndexType> CsrDir<Ix> for Directed {
    fn from_sorted(edges: &[(Ix, Ix, u32)]) -> Option<Result<Csr<u32, u32, Self, Ix>, ()>> {
        Some(Csr::from_sorted_edges(edges).map_err(|_| ()))
    }
}
impl<Ix: IndexType> CsrDir<Ix> for Undirected {
    fn from_sorted(_edges: &[(Ix, Ix, u32)]) -> Option<Result<Csr<u32, u32, Self, Ix>, ()>> {
        None
    }
}

fn observe_csr<Ty: EdgeType, Ix: IndexType>(g: &Csr<u32, u32, Ty, Ix>, m: &CsrModel, obs_rng: &mut Rng) -> Result<(), (&'static str, String)> {
    macro_rules! ensure {
        ($name:expr, $cond:expr, $($arg:tt)*) => {
            if !($cond) { return Err(($name, format!($($arg)*))); }
        };
    }
    let n = m.nodes.len();
    ensure!("is_directed", g.is_directed() == m.directed, "is_directed() = {}", g.is_directed());
    ensure!("node_count", g.node_count() == n, "node_count() = {}, model {}", g.node_count(), n);
    ensure!("edge_count", g.edge_count() == m.edge_count(), "edge_count() = {}, model {}", g.edge_count(), m.edge_count());
    let ids: Vec<usize> = g.node_identifiers().map(|i| i.index()).collect();
    ensure!("node_identifiers", ids == (0..n).collect::<Vec<_>>(), "node_identifiers() = {:?} for {} nodes", ids, n);
    let nr: Vec<(usize, u32)> = petgraph::visit::IntoNodeReferences::node_references(g).map(|(i, w)| (i.index(), *w)).collect();
    let exp_nr: Vec<(usize, u32)> = m.nodes.iter().copied().enumerate().collect();
    ensure!("node_references", nr == exp_nr, "node_references() = {:?}, model {:?}", nr, exp_nr);
    let mut nr_rev: Vec<(usize, u32)> = petgraph::visit::IntoNodeReferences::node_references(g).rev().map(|(i, w)| (i.index(), *w)).collect();
    nr_rev.reverse();
    ensure!("node_references_rev", nr_rev == exp_nr, "node_references().rev() reversed = {:?}, model {:?}", nr_rev, exp_nr);
    let mut all_rows: Vec<(usize, usize, u32)> = Vec::new();
    for a in 0..n {
        let ia = Ix::new(a);
        ensure!("node_weight", g[ia] == m.nodes[a], "g[{}] = {}, model {}", a, g[ia], m.nodes[a]);
        let row = m.row(a);
        let exp_t: Vec<usize> = row.iter().map(|x| x.0).collect();
        let exp_w: Vec<u32> = row.iter().map(|x| x.1).collect();
        let ns: Vec<usize> = g.neighbors_slice(ia).iter().map(|x| x.index()).collect();
        ensure!("neighbors_slice_ascending", ns.windows(2).all(|w| w[0] < w[1]), "neighbors_slice({}) = {:?} is not strictly ascending", a, ns);
        ensure!("neighbors_slice", ns == exp_t, "neighbors_slice({}) = {:?}, model row {:?}", a, ns, exp_t);
        let es: Vec<u32> = g.edges_slice(ia).to_vec();
        ensure!("edges_slice", es == exp_w, "edges_slice({}) = {:?}, model {:?}", a, es, exp_w);
        ensure!("out_degree", g.out_degree(ia) == row.len(), "out_degree({}) = {}, model {}", a, g.out_degree(ia), row.len());
        let nb: Vec<usize> = IntoNeighbors::neighbors(g, ia).map(|x| x.index()).collect();
        ensure!("neighbors", nb == exp_t, "neighbors({}) = {:?}, model row {:?}", a, nb, exp_t);
        let ed: Vec<(usize, usize, u32)> = g.edges(ia).map(|e| (e.source().index(), e.target().index(), *e.weight())).collect();
        let exp_e: Vec<(usize, usize, u32)> = row.iter().map(|x| (a, x.0, x.1)).collect();
        ensure!("edges", ed == exp_e, "edges({}) = {:?}, model {:?}", a, ed, exp_e);
        let ed2: Vec<(usize, usize, u32)> = IntoEdges::edges(g, ia).map(|e| (e.source().index(), e.target().index(), *e.weight())).collect();
        ensure!("into_edges", ed2 == exp_e, "IntoEdges::edges({}) = {:?}, model {:?}", a, ed2, exp_e);
        all_rows.extend(exp_e);
    }
    if obs_rng.chance(1, 3) {
        use crate::engines::iter_protocol as ip;
        let salt = obs_rng.next_u64();
        let res = (|| -> Result<(), String> {
            ip("node_identifiers()", || g.node_identifiers(), |i| i.index(), salt)?;
            ip("node_references()", || petgraph::visit::IntoNodeReferences::node_references(g), |r| (r.0.index(), *r.1), salt)?;
            ip("edge_references()", || g.edge_references(), |e| (e.source().index(), e.target().index(), *e.weight()), salt)?;
            if n > 0 {
                let a = Ix::new((salt % n as u64) as usize);
                ip(&format!("neighbors({})", a.index()), || IntoNeighbors::neighbors(g, a), |i| i.index(), salt)?;
                ip(&format!("edges({})", a.index()), || g.edges(a), |e| (e.source().index(), e.target().index(), *e.weight()), salt)?;
            }
            Ok(())
        })();
        if let Err(e) = res {
            return Err(("iterator-protocol", e));
        }
    }
    // edge_references walks all rows (C05 view; how often an undirected edge may appear is C06's business)
    let er: Vec<(usize, usize, u32)> = g.edge_references().map(|e| (e.source().index(), e.target().index(), *e.weight())).collect();
    if m.directed {
        ensure!("edge_references", er == all_rows, "edge_references() = {:?}, model rows {:?}", er, all_rows);
    } else {
        // every reported edge must be a row entry, and every unordered pair must be reported
        for e in &er {
            ensure!("edge_references", all_rows.contains(e), "edge_references() yields {:?} which is in no row", e);
        }
        for r in &all_rows {
            ensure!("edge_references", er.iter().any(|e| (e.0 == r.0 && e.1 == r.1) || (e.0 == r.1 && e.1 == r.0)), "edge {:?} is in a row but edge_references() never reports it", r);
        }
    }
    let pairs: Vec<(usize, usize)> = if n <= 12 {
        (0..n).flat_map(|a| (0..n).map(move |b| (a, b))).collect()
    } else {
        let mut v: Vec<(usize, usize)> = (0..150).map(|_| (obs_rng.below(n), obs_rng.below(n))).collect();
        for k in m.rows.keys().take(80) {
            v.push(*k);
            v.push((k.1, k.0));
        }
        v
    };
    for (a, b) in pairs {
        let exp = m.rows.contains_key(&(a, b));
        ensure!("contains_edge", g.contains_edge(Ix::new(a), Ix::new(b)) == exp, "contains_edge({}, {}) = {}, model {} (row {} has {} entries)", a, b, !exp, exp, a, m.row(a).len());
        if !m.directed {
            ensure!("undirected_symmetry", m.rows.contains_key(&(b, a)) == exp, "model asymmetry at ({}, {})", a, b);
        }
    }
    Ok(())
}

fn run_csr<Ty: EdgeType + CsrDir<Ix>, Ix: IndexType>(name: &'static str, visit: bool, cfg: &CsrCfg, mut feed: OpFeed<CsrOp>, acc: &mut Acc, ops: &mut Vec<CsrOp>) -> Exec {
    let max_index = <Ix as IndexType>::max().index();
    // a u8 Csr holds 256 nodes (index 255 is an ordinary node here, there is no end marker)
    let node_cap = if cfg.many { 1300usize.min(max_index.saturating_add(1)) } else { 120usize.min(max_index) };
    let n0 = cfg.with_nodes.unwrap_or(0).min(node_cap);
    let mut g: Csr<u32, u32, Ty, Ix> = match cfg.with_nodes {
        Some(_) => Csr::with_nodes(n0),
        None => Csr::new(),
    };
    let mut m = CsrModel { directed: Ty::is_directed(), nodes: vec![0; n0], rows: BTreeMap::new() };
    let mut next_w = 100u32;
    let mut step = 0usize;
    let mut unsorted_inserts = 0usize;
    let mut from_sorted_calls = 0usize;
    let mut obs_rng = Rng::new(cfg.obs_seed);
    macro_rules! nontrivial {
        () => {
            step >= 3 && (unsorted_inserts >= 2 || from_sorted_calls >= 1)
        };
    }
    macro_rules! bail {
        ($kind:expr, $check:expr, $($arg:tt)*) => {{
            return Exec { violation: Some(Violation::new(format!("{}/{}/{}", name, $kind, $check), format!($($arg)*), step)), nontrivial: nontrivial!() };
        }};
    }
    let mut fresh = || {
        next_w += 1;
        next_w
    };
    // with_nodes creates Default weights; make them unique
    for i in 0..n0 {
        let w = fresh();
        g[Ix::new(i)] = w;
        m.nodes[i] = w;
    }

    while let Some(op) = feed.next(|rng| gen_csr_op(rng, cfg, &m, step)) {
        ops.push(op.clone());
        let (kind, code) = op.kind();
        acc.op(kind, code);
        let n = m.nodes.len();
        match &op {
            CsrOp::AddNode => {
                if n >= node_cap {
                    acc.probe("csr_add_node_skipped_at_cap");
                } else {
                    let w = fresh();
                    match catch(|| g.add_node(w)) {
                        Ok(i) => {
                            if i.index() != n {
                                bail!(kind, "index", "add_node returned {} with {} nodes", i.index(), n);
                            }
                        }
                        Err(p) => bail!(kind, "panic", "add_node panicked: {}", p),
                    }
                    acc.probe_if(!m.rows.is_empty(), "csr_add_node_with_existing_edges");
                    m.nodes.push(w);
                }
            }
            CsrOp::AddEdge { a, b, try_ } => {
                let (a, b) = ((*a).min(max_index), (*b).min(max_index));
                let inb = a < n && b < n;
                let w = fresh();
                let exists = m.rows.contains_key(&(a, b));
                if !inb {
                    acc.fault("index_out_of_range");
                }
                let r: Result<Result<bool, String>, String> = if *try_ {
                    catch(|| g.try_add_edge(Ix::new(a), Ix::new(b), w).map_err(|e| format!("{:?}", e)))
                } else {
                    catch(|| Ok(g.add_edge(Ix::new(a), Ix::new(b), w)))
                };
                match (r, inb) {
                    (Ok(Ok(added)), true) => {
                        if added == exists {
                            bail!(kind, "result", "{}({}, {}) returned {} but the edge {}", kind, a, b, added, if exists { "already existed" } else { "was new" });
                        }
                        if added {
                            let row = m.row(a);
                            if row.last().map(|l| l.0 > b).unwrap_or(false) {
                                unsorted_inserts += 1;
                            }
                            acc.probe_if(row.len() >= 32, "csr_insert_into_row_of_32_or_more");
                            acc.probe_if(row.len() == 31, "csr_row_crosses_binary_search_cutoff");
                            m.rows.insert((a, b), w);
                            if !m.directed {
                                m.rows.insert((b, a), w);
                            }
                        } else {
                            acc.probe_if(m.row(a).len() >= 32, "csr_duplicate_found_in_row_of_32_or_more");
                        }
                    }
                    (Ok(Err(_)), false) => {}
                    (Err(_), false) if !*try_ => acc.fault("documented_panic"),
                    (Ok(Ok(r)), false) => bail!(kind, "error-ignored", "{}({}, {}) returned {} with {} nodes", kind, a, b, r, n),
                    (Ok(Err(e)), true) => bail!(kind, "spurious-error", "{}({}, {}) returned {} with {} nodes", kind, a, b, e, n),
                    (Err(p), _) => bail!(kind, "panic", "{}({}, {}) panicked: {}", kind, a, b, p),
                }
            }
            CsrOp::ClearEdges => {
                if let Err(p) = catch(|| g.clear_edges()) {
                    bail!(kind, "panic", "clear_edges panicked: {}", p);
                }
                m.rows.clear();
            }
            CsrOp::SetNodeW(a) => {
                let a = (*a).min(max_index);
                let w = fresh();
                match (catch(|| g[Ix::new(a)] = w), a < n) {
                    (Ok(()), true) => m.nodes[a] = w,
                    (Err(_), false) => acc.fault("documented_panic"),
                    (Ok(()), false) => bail!(kind, "missing-panic", "g[{}] = w succeeded with {} nodes", a, n),
                    (Err(p), true) => bail!(kind, "panic", "g[{}] = w panicked: {}", a, p),
                }
            }
            CsrOp::FromSorted { edges, mutation, at } => {
                let mut list: Vec<(usize, usize)> = edges.iter().map(|&(a, b)| (a.min(node_cap - 1), b.min(node_cap - 1))).collect();
                if !list.is_empty() {
                    let i = at % list.len();
                    match mutation {
                        1 if list.len() >= 2 => {
                            let j = (i + 1) % list.len();
                            list.swap(i, j);
                        }
                        2 => {
                            let e = list[i];
                            list.insert(i, e);
                        }
                        3 => list.reverse(),
                        _ => {}
                    }
                }
                let strictly_sorted = list.windows(2).all(|w| w[0] < w[1]);
                let ws: Vec<(Ix, Ix, u32)> = list.iter().map(|&(a, b)| (Ix::new(a), Ix::new(b), fresh())).collect();
                match catch(|| Ty::from_sorted(&ws)) {
                    Ok(None) => acc.probe("csr_from_sorted_skipped_undirected"),
                    Ok(Some(Ok(g2))) => {
                        if !strictly_sorted {
                            bail!(kind, "accepted-unsorted", "from_sorted_edges accepted {:?} which is not strictly sorted / duplicate-free", list);
                        }
                        from_sorted_calls += 1;
                        g = g2;
                        let nn = list.iter().map(|e| e.0.max(e.1) + 1).max().unwrap_or(0);
                        m.nodes = vec![0; nn];
                        m.rows.clear();
                        for (k, &(a, b)) in list.iter().enumerate() {
                            m.rows.insert((a, b), ws[k].2);
                        }
                        for i in 0..nn {
                            let w = fresh();
                            g[Ix::new(i)] = w;
                            m.nodes[i] = w;
                        }
                    }
                    Ok(Some(Err(()))) => {
                        if strictly_sorted {
                            bail!(kind, "rejected-sorted", "from_sorted_edges rejected the strictly sorted list {:?}", list);
                        }
                        acc.fault("unsorted_or_duplicate_edge_list");
                    }
                    Err(p) => bail!(kind, "panic", "from_sorted_edges({:?}) panicked: {}", list, p),
                }
            }
            CsrOp::Clone => {
                let c = g.clone();
                g = c;
            }
            CsrOp::BulkRow { a, k, seed } => {
                if n > 0 {
                    let a = a % n;
                    let mut r = Rng::new(*seed);
                    for _ in 0..(*k).min(64) {
                        let b = r.below(n);
                        let w = fresh();
                        let exists = m.rows.contains_key(&(a, b));
                        match catch(|| g.add_edge(Ix::new(a), Ix::new(b), w)) {
                            Ok(added) => {
                                if added == exists {
                                    bail!(kind, "result", "add_edge({}, {}) returned {} but the edge {}", a, b, added, if exists { "already existed" } else { "was new" });
                                }
                                if added {
                                    unsorted_inserts += 1;
                                    acc.probe_if(m.row(a).len() >= 32, "csr_insert_into_row_of_32_or_more");
                                    m.rows.insert((a, b), w);
                                    if !m.directed {
                                        m.rows.insert((b, a), w);
                                    }
                                }
                            }
                            Err(p) => bail!(kind, "panic", "add_edge({}, {}) panicked: {}", a, b, p),
                        }
                    }
                }
            }
        }
        if !visit {
            match catch(|| observe_csr(&g, &m, &mut obs_rng)) {
                Ok(Ok(())) => {}
                Ok(Err((c, d))) => bail!(kind, c, "{}", d),
                Err(p) => bail!(kind, "observe-panic", "a query panicked after {}: {}", kind, p),
            }
        } else {
            if m.nodes.len() <= 14 || obs_rng.chance(1, 6) {
                match catch(|| Ty::visit(&g, cfg.obs_seed ^ step as u64)) {
                    Ok(Ok(())) => {}
                    Ok(Err((c, d))) => bail!("visit", c, "{}", d),
                    Err(p) => bail!("visit", "panic", "a visit-trait call panicked after {}: {}", kind, p),
                }
            }
            let agrees = catch(|| observe_csr(&g, &m, &mut obs_rng)).map(|r| r.is_ok()).unwrap_or(false);
            if !agrees {
                acc.probe("visit_run_discarded_model_mismatch");
                return Exec { violation: None, nontrivial: false };
            }
        }
        acc.state(m.hash());
        step += 1;
    }
    Exec { violation: None, nontrivial: nontrivial!() }
}

// =======================================================================================
// adj::List
// =======================================================================================

#[derive(Clone, Debug, Serialize, Deserialize)]
pub struct ListCfg {
    pub width: Width,
    pub cap: Option<usize>,
    pub fault_permille: u32,
    pub obs_seed: u64,
    /// start with a few nodes short of 256 (the whole u8 index space) or of 1030
    #[serde(default)]
    pub many: bool,
}

#[derive(Clone, Debug, Serialize, Deserialize)]
pub enum ListOp {
    /// how: 0 add_node, 1 add_node_with_capacity, 2 add_node_from_edges, 3 Build::add_node
    AddNode { how: u8, targets: Vec<usize> },
    AddEdge { a: usize, b: usize, build: bool },
    UpdateEdge { a: usize, b: usize },
    Clear,
    /// write the weight of the k-th remembered edge index through DataMapMut
    SetW(usize),
    Clone,
    /// k edges out of one node (targets a, a+1, ... cyclically): rows longer than a narrow
    /// index type can count
    BulkEdges { a: usize, k: usize },
    BulkNodes(usize),
}

impl ListOp {
    fn kind(&self) -> (&'static str, u8) {
        match self {
            ListOp::AddNode { how: 2, .. } => ("add_node_from_edges", 1),
            ListOp::AddNode { .. } => ("add_node", 0),
            ListOp::AddEdge { build: false, .. } => ("add_edge", 2),
            ListOp::AddEdge { .. } => ("build_add_edge", 3),
            ListOp::UpdateEdge { .. } => ("update_edge", 4),
            ListOp::Clear => ("clear", 5),
            ListOp::SetW(_) => ("edge_weight_mut", 6),
            ListOp::Clone => ("clone", 7),
            ListOp::BulkEdges { .. } => ("bulk_add_edges", 8),
            ListOp::BulkNodes(_) => ("bulk_add_nodes", 9),
        }
    }
}

pub struct ListEngine {
    pub visit: bool,
}

impl History for ListEngine {
    type Cfg = ListCfg;
    type Op = ListOp;
    fn name(&self) -> &'static str {
        if self.visit {
            "list-visit"
        } else {
            "list"
        }
    }
    fn rule(&self) -> &'static str {
        "history with >= 3 applied operations and >= 2 edges of which one is parallel, a self-loop or an update"
    }
    fn gen_cfg(&self, rng: &mut Rng, tier: Tier) -> (ListCfg, usize) {
        let base = if tier == Tier::Thorough { 30 } else { 20 };
        let many = !self.visit && rng.chance(1, 80);
        (
            ListCfg {
                width: Width::pick(rng),
                cap: if rng.chance(1, 3) { Some(rng.below(20)) } else { None },
                fault_permille: *rng.pick(&[0u32, 50, 200]),
                obs_seed: rng.next_u64(),
                many,
            },
            if many { rng.range(6, 24) } else { rng.geometric(1, base, 90) },
        )
    }
    fn execute(&self, cfg: &ListCfg, feed: OpFeed<ListOp>, acc: &mut Acc, ops: &mut Vec<ListOp>) -> Exec {
        match cfg.width {
            Width::U8 => run_list::<u8>(self.name(), self.visit, cfg, feed, acc, ops),
            Width::U16 => run_list::<u16>(self.name(), self.visit, cfg, feed, acc, ops),
            Width::U32 => run_list::<u32>(self.name(), self.visit, cfg, feed, acc, ops),
            Width::Usize => run_list::<usize>(self.name(), self.visit, cfg, feed, acc, ops),
        }
    }
}

type Rows = Vec<Vec<(usize, u32)>>;

fn gen_list_op(rng: &mut Rng, cfg: &ListCfg, rows: &Rows, remembered: usize) -> ListOp {
    let n = rows.len();
    if cfg.many && n == 0 {
        return ListOp::BulkNodes(if cfg.width == Width::U8 || rng.chance(1, 2) { rng.range(252, 255) } else { rng.range(1020, 1026) });
    }
    if cfg.many && rng.chance(1, 3) {
        return ListOp::AddNode { how: rng.below(4) as u8, targets: vec![] };
    }
    let node = |rng: &mut Rng| -> usize {
        if n == 0 || (rng.below(1000) as u32) < cfg.fault_permille {
            n + rng.below(3)
        } else {
            rng.below(n)
        }
    };
    match rng.below(100) {
        0..=17 if n < 14 => {
            let how = rng.below(4) as u8;
            let targets = if how == 2 { (0..rng.below(4)).map(|_| rng.below(n + 1)).collect() } else { vec![] };
            ListOp::AddNode { how, targets }
        }
        0..=59 => {
            let a = node(rng);
            // bias to an existing successor: parallel edges
            let b = if a < n && !rows[a].is_empty() && rng.chance(1, 4) { rows[a][rng.below(rows[a].len())].0 } else if rng.chance(1, 8) { a } else { node(rng) };
            ListOp::AddEdge { a, b, build: rng.chance(1, 4) }
        }
        60..=79 => {
            if n == 0 {
                return ListOp::AddNode { how: 0, targets: vec![] };
            }
            let a = rng.below(n);
            let b = if !rows[a].is_empty() && rng.chance(1, 2) { rows[a][rng.below(rows[a].len())].0 } else { rng.below(n) };
            ListOp::UpdateEdge { a, b }
        }
        80..=81 => {
            if rng.chance(1, 3) {
                ListOp::Clear
            } else {
                ListOp::Clone
            }
        }
        82 if n > 0 && rng.chance(1, 6) => ListOp::BulkEdges { a: rng.below(n), k: *rng.pick(&[40usize, 130, 270, 300]) },
        82..=93 if remembered > 0 => ListOp::SetW(rng.below(remembered)),
        94..=96 => ListOp::Clone,
        _ => ListOp::AddNode { how: 0, targets: vec![] },
    }
}

fn run_list<Ix: IndexType>(name: &'static str, visit: bool, cfg: &ListCfg, mut feed: OpFeed<ListOp>, acc: &mut Acc, ops: &mut Vec<ListOp>) -> Exec {
    let max_index = <Ix as IndexType>::max().index();
    let mut g: List<u32, Ix> = match cfg.cap {
        Some(c) => List::with_capacity(c),
        None => List::new(),
    };
    let mut rows: Rows = Vec::new();
    // every edge index the API ever returned, with the (from, rank) it named
    let mut remembered: Vec<(petgraph::adj::EdgeIndex<Ix>, usize, usize)> = Vec::new();
    let mut next_w = 100u32;
    let mut step = 0usize;
    let mut edges_added = 0usize;
    let mut special = 0usize;
    let mut obs_rng = Rng::new(cfg.obs_seed);
    macro_rules! nontrivial {
        () => {
            step >= 3 && edges_added >= 2 && special >= 1
        };
    }
    macro_rules! bail {
        ($kind:expr, $check:expr, $($arg:tt)*) => {{
            return Exec { violation: Some(Violation::new(format!("{}/{}/{}", name, $kind, $check), format!($($arg)*), step)), nontrivial: nontrivial!() };
        }};
    }
    let mut fresh = || {
        next_w += 1;
        next_w
    };

    while let Some(op) = feed.next(|rng| gen_list_op(rng, cfg, &rows, remembered.len())) {
        ops.push(op.clone());
        let (kind, code) = op.kind();
        acc.op(kind, code);
        let n = rows.len();
        match &op {
            ListOp::AddNode { how, targets } => {
                // a u8 List holds 256 nodes (index 255 is an ordinary node)
                if n >= (if cfg.many { 1300usize.min(max_index.saturating_add(1)) } else { 100usize.min(max_index) }) {
                    acc.probe("list_add_node_skipped_at_cap");
                } else {
                    let ts: Vec<(usize, u32)> = targets.iter().map(|&t| (t.min(n), fresh())).collect();
                    let r = match how % 4 {
                        0 => catch(|| g.add_node()),
                        1 => catch(|| g.add_node_with_capacity(3)),
                        2 => catch(|| g.add_node_from_edges(ts.iter().map(|&(t, w)| (Ix::new(t), w)))),
                        _ => catch(|| Build::add_node(&mut g, ())),
                    };
                    match r {
                        Ok(i) => {
                            if i.index() != n {
                                bail!(kind, "index", "{} returned {} with {} nodes", kind, i.index(), n);
                            }
                        }
                        Err(p) => bail!(kind, "panic", "{} panicked: {}", kind, p),
                    }
                    rows.push(if how % 4 == 2 { ts.clone() } else { vec![] });
                    if how % 4 == 2 {
                        edges_added += ts.len();
                    }
                }
            }
            ListOp::AddEdge { a, b, build } => {
                let (a, b) = ((*a).min(max_index), (*b).min(max_index));
                let inb = a < n && b < n;
                if !inb {
                    acc.fault("index_out_of_range");
                }
                let w = fresh();
                let r = if *build {
                    catch(|| Build::add_edge(&mut g, Ix::new(a), Ix::new(b), w).expect("Build::add_edge returned None on a multigraph type"))
                } else {
                    catch(|| g.add_edge(Ix::new(a), Ix::new(b), w))
                };
                match (r, inb) {
                    (Ok(e), true) => {
                        let rank = rows[a].len();
                        if rows[a].iter().any(|x| x.0 == b) {
                            special += 1;
                            acc.probe("list_parallel_edge");
                        }
                        if a == b {
                            special += 1;
                        }
                        rows[a].push((b, w));
                        edges_added += 1;
                        match catch(|| g.edge_endpoints(e)) {
                            Ok(Some((x, y))) if x.index() == a && y.index() == b => {}
                            other => bail!(kind, "returned-index", "add_edge({}, {}) returned an index whose endpoints are {:?}", a, b, other.map(|o| o.map(|(x, y)| (x.index(), y.index())))),
                        }
                        remembered.push((e, a, rank));
                    }
                    (Err(_), false) => acc.fault("documented_panic"),
                    (Ok(_), false) => bail!(kind, "missing-panic", "{}({}, {}) succeeded with {} nodes", kind, a, b, n),
                    (Err(p), true) => bail!(kind, "panic", "{}({}, {}) panicked: {}", kind, a, b, p),
                }
            }
            ListOp::BulkNodes(k) => {
                for _ in 0..(*k).min(1300usize.min(max_index.saturating_add(1)).saturating_sub(rows.len())) {
                    match catch(|| g.add_node()) {
                        Ok(i) => {
                            if i.index() != rows.len() {
                                bail!(kind, "index", "add_node returned {} with {} nodes", i.index(), rows.len());
                            }
                        }
                        Err(p) => bail!(kind, "panic", "add_node panicked with {} nodes: {}", rows.len(), p),
                    }
                    rows.push(vec![]);
                }
                acc.probe_if(rows.len() >= 252, "list_many_nodes");
            }
            ListOp::BulkEdges { a, k } => {
                let a = *a;
                if a >= n {
                    acc.probe("list_bulk_skipped_out_of_range");
                } else {
                    for j in 0..*k {
                        let b = (a + j) % n;
                        let w = fresh();
                        let e = match catch(|| g.add_edge(Ix::new(a), Ix::new(b), w)) {
                            Ok(e) => e,
                            Err(p) => bail!(kind, "panic", "add_edge({}, {}) panicked with {} edges in the row: {}", a, b, rows[a].len(), p),
                        };
                        let rank = rows[a].len();
                        rows[a].push((b, w));
                        edges_added += 1;
                        special += 1;
                        let got = catch(|| (g.edge_endpoints(e).map(|(x, y)| (x.index(), y.index())), DataMap::edge_weight(&g, e).copied()));
                        if got != Ok((Some((a, b)), Some(w))) {
                            bail!(kind, "returned-index", "add_edge({}, {}) as edge number {} of its row returned an index that resolves to {:?}, expected endpoints ({}, {}) and weight {}", a, b, rank, got, a, b, w);
                        }
                        // remember a sample (the per-step check walks all remembered indices)
                        if j % 16 == 0 || j + 1 == *k || rank == 255 || rank == 256 || rank == 257 {
                            remembered.push((e, a, rank));
                        }
                    }
                    acc.probe_if(rows[a].len() > 256, "list_row_longer_than_256");
                }
            }
            ListOp::UpdateEdge { a, b } => {
                let (a, b) = (*a, *b);
                if a >= n || b >= n {
                    acc.probe("list_update_edge_skipped_out_of_range");
                } else {
                    let w = fresh();
                    match catch(|| Build::update_edge(&mut g, Ix::new(a), Ix::new(b), w)) {
                        Ok(e) => {
                            let existing: Vec<usize> = (0..rows[a].len()).filter(|&i| rows[a][i].0 == b).collect();
                            let ends = catch(|| g.edge_endpoints(e)).ok().flatten().map(|(x, y)| (x.index(), y.index()));
                            if ends != Some((a, b)) {
                                bail!(kind, "returned-index", "update_edge({}, {}) returned an index whose endpoints are {:?}", a, b, ends);
                            }
                            if existing.is_empty() {
                                let rank = rows[a].len();
                                rows[a].push((b, w));
                                remembered.push((e, a, rank));
                                edges_added += 1;
                            } else {
                                // lookups by endpoints resolve in insertion order: the edge that is
                                // updated must be the one find_edge reports (the first a -> b inserted)
                                let first = existing[0];
                                let found = catch(|| g.find_edge(Ix::new(a), Ix::new(b))).ok().flatten();
                                if found != Some(e) {
                                    bail!(kind, "updated-other-than-found", "update_edge({}, {}) returned an index different from the one find_edge({}, {}) reports", a, b, a, b);
                                }
                                let listing_now: Vec<u32> = IntoEdges::edges(&g, Ix::new(a)).map(|e| *e.weight()).collect();
                                if listing_now.get(first) != Some(&w) {
                                    bail!(kind, "updated-not-first", "update_edge({}, {}) did not update the first inserted edge (rank {}): row weights {:?}", a, b, first, listing_now);
                                }
                                special += 1;
                                let hit = existing.iter().copied().find(|&i| {
                                    let idx = remembered.iter().find(|r| r.1 == a && r.2 == i).map(|r| r.0);
                                    match idx {
                                        Some(ei) => DataMap::edge_weight(&g, ei).copied() == Some(w),
                                        None => false,
                                    }
                                });
                                match hit {
                                    Some(i) => rows[a][i].1 = w,
                                    None => {
                                        // edges created by add_node_from_edges are not remembered: find by listing
                                        let listing: Vec<u32> = IntoEdges::edges(&g, Ix::new(a)).map(|e| *e.weight()).collect();
                                        match listing.iter().position(|x| *x == w) {
                                            Some(i) if existing.contains(&i) => rows[a][i].1 = w,
                                            _ => bail!(kind, "updated-wrong-edge", "update_edge({}, {}) did not update one of the existing edges at ranks {:?} (row weights {:?})", a, b, existing, listing),
                                        }
                                    }
                                }
                            }
                        }
                        Err(p) => bail!(kind, "panic", "update_edge({}, {}) panicked: {}", a, b, p),
                    }
                }
            }
            ListOp::Clear => {
                if let Err(p) = catch(|| g.clear()) {
                    bail!(kind, "panic", "clear panicked: {}", p);
                }
                rows.clear();
            }
            ListOp::SetW(k) => {
                if !remembered.is_empty() {
                    let (e, from, rank) = remembered[k % remembered.len()];
                    let w = fresh();
                    let live = rows.get(from).map(|r| rank < r.len()).unwrap_or(false);
                    if !live {
                        acc.fault("stale_edge_index");
                    }
                    match catch(|| DataMapMut::edge_weight_mut(&mut g, e).map(|x| *x = w).is_some()) {
                        Ok(r) => {
                            if r != live {
                                bail!(kind, "result", "edge_weight_mut(({}, {})).is_some() = {}, model {}", from, rank, r, live);
                            }
                            if live {
                                rows[from][rank].1 = w;
                            }
                        }
                        Err(p) => bail!(kind, "panic", "edge_weight_mut panicked: {}", p),
                    }
                }
            }
            ListOp::Clone => {
                let c = g.clone();
                g = c;
            }
        }
        // ---- observation
        let obs = catch(|| -> Result<(), (&'static str, String)> {
            macro_rules! ensure {
                ($name:expr, $cond:expr, $($arg:tt)*) => {
                    if !($cond) { return Err(($name, format!($($arg)*))); }
                };
            }
            let n = rows.len();
            let total: usize = rows.iter().map(|r| r.len()).sum();
            ensure!("node_count", NodeCount::node_count(&g) == n, "node_count() = {}, model {}", NodeCount::node_count(&g), n);
            ensure!("edge_count", g.edge_count() == total && EdgeCount::edge_count(&g) == total, "edge_count() = {}, model {}", g.edge_count(), total);
            let ids: Vec<usize> = g.node_indices().map(|i| i.index()).collect();
            ensure!("node_indices", ids == (0..n).collect::<Vec<_>>(), "node_indices() = {:?}", ids);
            if obs_rng.chance(1, 3) {
                use crate::engines::iter_protocol as ip;
                let salt = obs_rng.next_u64();
                let res = (|| -> Result<(), String> {
                    ip("node_indices()", || g.node_indices(), |i| i.index(), salt)?;
                    ip("edge_indices()", || g.edge_indices(), |e| g.edge_endpoints(*e).map(|(x, y)| (x.index(), y.index())), salt)?;
                    ip("edge_references()", || g.edge_references(), |e| (e.source().index(), e.target().index(), *e.weight()), salt)?;
                    if n > 0 {
                        let a = Ix::new((salt % n as u64) as usize);
                        ip(&format!("edge_indices_from({})", a.index()), || g.edge_indices_from(a), |e| g.edge_endpoints(*e).map(|(x, y)| (x.index(), y.index())), salt)?;
                        ip(&format!("neighbors({})", a.index()), || IntoNeighbors::neighbors(&g, a), |i| i.index(), salt)?;
                        ip(&format!("edges({})", a.index()), || IntoEdges::edges(&g, a), |e| (e.source().index(), e.target().index(), *e.weight()), salt)?;
                    }
                    Ok(())
                })();
                if let Err(e) = res {
                    return Err(("iterator-protocol", e));
                }
            }
            let exp_refs: Vec<(usize, usize, u32)> = rows.iter().enumerate().flat_map(|(a, r)| r.iter().map(move |x| (a, x.0, x.1))).collect();
            let refs: Vec<(usize, usize, u32)> = g.edge_references().map(|e| (e.source().index(), e.target().index(), *e.weight())).collect();
            ensure!("edge_references", refs == exp_refs, "edge_references() = {:?}, model (insertion order) {:?}", refs, exp_refs);
            {
                // a cloned iterator continues from the same position
                let mut it = g.edge_references();
                let k = obs_rng.below(total + 1);
                for _ in 0..k { it.next(); }
                let rest: Vec<(usize, usize, u32)> = it.clone().map(|e| (e.source().index(), e.target().index(), *e.weight())).collect();
                ensure!("edge_references_clone", rest == exp_refs[k.min(total)..], "edge_references() cloned after {} items continues with {:?}, model {:?}", k, rest, &exp_refs[k.min(total)..]);
            }
            for a in 0..(n + 2) {
                if a > max_index { continue; }
                let w = DataMap::node_weight(&g, Ix::new(a));
                ensure!("datamap_node_weight", w.is_some() == (a < n), "DataMap::node_weight({}) = {:?} with {} nodes", a, w, n);
            }
            {
                let c = g.clone();
                let crefs: Vec<(usize, usize, u32)> = c.edge_references().map(|e| (e.source().index(), e.target().index(), *e.weight())).collect();
                ensure!("clone", crefs == exp_refs && NodeCount::node_count(&c) == n, "a clone lists {:?} over {} nodes, model {:?} over {}", crefs, NodeCount::node_count(&c), exp_refs, n);
            }
            let idx: Vec<(usize, usize, Option<u32>)> = g.edge_indices().map(|e| { let ends = g.edge_endpoints(e).map(|(x, y)| (x.index(), y.index())).unwrap_or((usize::MAX, usize::MAX)); (ends.0, ends.1, DataMap::edge_weight(&g, e).copied()) }).collect();
            let exp_idx: Vec<(usize, usize, Option<u32>)> = exp_refs.iter().map(|x| (x.0, x.1, Some(x.2))).collect();
            ensure!("edge_indices", idx == exp_idx, "edge_indices() resolve to {:?}, model {:?}", idx, exp_idx);
            for a in 0..n {
                let ia = Ix::new(a);
                let nb: Vec<usize> = IntoNeighbors::neighbors(&g, ia).map(|x| x.index()).collect();
                let exp: Vec<usize> = rows[a].iter().map(|x| x.0).collect();
                ensure!("neighbors", nb == exp, "neighbors({}) = {:?}, model (insertion order) {:?}", a, nb, exp);
                let es: Vec<(usize, usize, u32)> = IntoEdges::edges(&g, ia).map(|e| (e.source().index(), e.target().index(), *e.weight())).collect();
                let exp_e: Vec<(usize, usize, u32)> = rows[a].iter().map(|x| (a, x.0, x.1)).collect();
                ensure!("edges", es == exp_e, "edges({}) = {:?}, model {:?}", a, es, exp_e);
                let from: Vec<Option<(usize, usize)>> = g.edge_indices_from(ia).map(|e| g.edge_endpoints(e).map(|(x, y)| (x.index(), y.index()))).collect();
                let exp_from: Vec<Option<(usize, usize)>> = rows[a].iter().map(|x| Some((a, x.0))).collect();
                ensure!("edge_indices_from", from == exp_from, "edge_indices_from({}) resolve to {:?}, model {:?}", a, from, exp_from);
            }
            for a in 0..(n + 1) {
                for b in 0..(n + 1) {
                    if a > max_index || b > max_index {
                        continue;
                    }
                    let exists = a < n && rows[a].iter().any(|x| x.0 == b);
                    ensure!("contains_edge", g.contains_edge(Ix::new(a), Ix::new(b)) == exists, "contains_edge({}, {}) = {}, model {}", a, b, !exists, exists);
                    match g.find_edge(Ix::new(a), Ix::new(b)) {
                        Some(e) => {
                            let ends = g.edge_endpoints(e).map(|(x, y)| (x.index(), y.index()));
                            ensure!("find_edge", exists && ends == Some((a, b)), "find_edge({}, {}) = Some(index with endpoints {:?}), model exists = {}", a, b, ends, exists);
                            // insertion order: the first a -> b edge of the row
                            let first = rows[a].iter().position(|x| x.0 == b).unwrap();
                            let first_id = g.edge_indices_from(Ix::new(a)).nth(first);
                            ensure!("find_edge_first", first_id == Some(e), "find_edge({}, {}) does not return the first inserted edge (rank {})", a, b, first);
                        }
                        None => ensure!("find_edge", !exists, "find_edge({}, {}) = None but the edge exists", a, b),
                    }
                }
            }
            // every edge index ever returned: valid exactly while the model has that (from, rank)
            for &(e, from, rank) in remembered.iter() {
                let exp = rows.get(from).and_then(|r| r.get(rank)).map(|x| (from, x.0, x.1));
                let got = g.edge_endpoints(e).map(|(x, y)| (x.index(), y.index()));
                let gw = DataMap::edge_weight(&g, e).copied();
                ensure!("returned_index_valid", got == exp.map(|x| (x.0, x.1)) && gw == exp.map(|x| x.2), "remembered edge index ({}, {}) resolves to {:?} / weight {:?}, model {:?}", from, rank, got, gw, exp);
            }
            Ok(())
        });
        let agrees = match obs {
            Ok(Ok(())) => true,
            Ok(Err((c, d))) => {
                if !visit {
                    bail!(kind, c, "{}", d);
                }
                false
            }
            Err(p) => {
                if !visit {
                    bail!(kind, "observe-panic", "a query panicked after {}: {}", kind, p);
                }
                false
            }
        };
        if visit {
            match catch(|| super::visit::check_list(&g, cfg.obs_seed ^ step as u64)) {
                Ok(Ok(())) => {}
                Ok(Err((c, d))) => bail!("visit", c, "{}", d),
                Err(p) => bail!("visit", "panic", "a visit-trait call panicked after {}: {}", kind, p),
            }
            if !agrees {
                acc.probe("visit_run_discarded_model_mismatch");
                return Exec { violation: None, nontrivial: false };
            }
        }
        let mut h = StateHasher::new();
        for r in &rows {
            h.add(r.len() as u64);
            for x in r {
                h.add(x.0 as u64);
            }
        }
        acc.state(h.finish());
        step += 1;
    }
    Exec { violation: None, nontrivial: nontrivial!() }
}
