//! Which engines decide which property, and with what budgets.

use serde_json::{json, Value};

pub const DEFAULT_SEED: u64 = 20261003;

pub const PROPERTIES: &[&str] = &["C01", "C02", "C03", "C04", "C05", "C06", "C07", "C14", "C17", "C19"];

pub struct PlanItem {
    pub engine: &'static str,
    pub quick_runs: u64,
    pub thorough_runs: u64,
}

pub fn plan(property: &str) -> Option<Vec<PlanItem>> {
    let it = |engine, quick_runs, thorough_runs| PlanItem {
        engine,
        quick_runs,
        thorough_runs,
    };
    Some(match property {
        "C01" => vec![it("graph", 600_000, 12_000_000)],
        "C02" => vec![it("stable", 600_000, 12_000_000)],
        "C03" => vec![it("graphmap", 600_000, 15_000_000)],
        "C04" => vec![it("matrix", 400_000, 12_000_000)],
        "C05" => vec![it("csr", 300_000, 9_000_000), it("list", 300_000, 9_000_000)],
        "C06" => vec![it("csr-visit", 40_000, 800_000), it("list-visit", 40_000, 800_000), it("matrix-visit", 40_000, 800_000), it("graph-visit", 60_000, 1_200_000), it("stable-visit", 60_000, 1_200_000), it("graphmap-visit", 60_000, 1_200_000)],
        "C07" => vec![it("replicas", 120_000, 4_000_000)],
        "C14" => vec![it("acyclic-graph", 200_000, 6_000_000), it("acyclic-stable", 200_000, 6_000_000)],
        "C17" => vec![it("serde-stream", 300_000, 6_000_000)],
        "C19" => vec![it("unionfind", 4_000_000, 120_000_000)],
        _ => return None,
    })
}

pub fn static_info(property: &str) -> Value {
    let common_assumptions = vec![
        "seeded sampling of histories and fault placements: a clean batch is evidence, not proof",
        "the reference models in /verif/sim/src/models are the specification the run is compared against; they are deliberately simple (Vec/BTreeMap) and were reviewed against the documentation of each operation",
        "rustc, std, hashbrown, indexmap, fixedbitset, serde, serde_json and bincode behave as documented",
        "hash iteration order is made a function of the run seed by a vendored foldhash 0.1.5 whose only change is seeding (sim/vendor/foldhash-sim); all other code runs unmodified from /repo's working tree",
    ];
    let real_vs_stub = json!({
        "real": ["all of petgraph (built from /repo working tree, features serde-1 + defaults)", "hashbrown", "indexmap", "fixedbitset", "serde_json", "bincode"],
        "stubbed": ["entropy for hashbrown's default hasher -> simulator-seeded foldhash", "OS I/O -> in-memory SimDisk reader/writer with injected faults (C17 only)"],
        "oracles": ["reference models written for this harness (Vec/BTreeMap multigraph, label array, reachability DFS)"]
    });
    let expected_probes: Vec<&str> = match property {
        "C19" => vec!["uf_u8_reached_256", "uf_self_union_out_of_range", "uf_one_root_wins_hundreds_of_unions"],
        _ => vec![],
    };
    json!({
        "assumptions": common_assumptions,
        "real_vs_stub": real_vs_stub,
        "expected_probes": expected_probes,
    })
}
