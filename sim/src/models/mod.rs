pub mod adj;
