//! Reference multigraph for `Graph` (compact indices, documented swap-renumbering) and
//! `StableGraph` (stable indices with vacancies). Deliberately dumb: vectors and scans.
//!
//! Elements carry a model-only identity (`uid`), per-node recency lists hold edge uids
//! (most recently added first), so neighbour order is predicted exactly through removals,
//! swaps and `reverse`. Where the documentation leaves a choice to the implementation
//! (which slot a survivor moves to after a multi-removal, which vacancy is reused, which of
//! several parallel edges is found) the model checks *legality* of the observed choice and
//! adopts it.

use crate::core::StateHasher;
use std::collections::{BTreeMap, BTreeSet};

#[derive(Clone, Debug)]
pub struct MNode {
    pub w: u32,
    pub uid: u64,
    /// uids of edges whose source is this node, most recently added first
    pub out: Vec<u64>,
    /// uids of edges whose target is this node, most recently added first
    pub inc: Vec<u64>,
}

#[derive(Clone, Debug)]
pub struct MEdge {
    pub a: usize,
    pub b: usize,
    pub w: u32,
    pub uid: u64,
}

#[derive(Clone, Debug)]
pub struct AdjModel {
    pub compact: bool,
    pub directed: bool,
    /// largest value of the index type == the reserved `end()` marker
    pub max_index: usize,
    pub nodes: Vec<Option<MNode>>,
    pub edges: Vec<Option<MEdge>>,
    next_uid: u64,
}

pub type EdgeObs = (usize, usize, usize, u32); // (edge index, source, target, weight)

impl AdjModel {
    pub fn new(compact: bool, directed: bool, max_index: usize) -> AdjModel {
        AdjModel {
            compact,
            directed,
            max_index,
            nodes: Vec::new(),
            edges: Vec::new(),
            next_uid: 1,
        }
    }
    fn uid(&mut self) -> u64 {
        self.next_uid += 1;
        self.next_uid
    }
    pub fn n_live(&self) -> usize {
        self.nodes.iter().filter(|n| n.is_some()).count()
    }
    pub fn m_live(&self) -> usize {
        self.edges.iter().filter(|e| e.is_some()).count()
    }
    pub fn node(&self, i: usize) -> Option<&MNode> {
        self.nodes.get(i).and_then(|n| n.as_ref())
    }
    pub fn edge(&self, e: usize) -> Option<&MEdge> {
        self.edges.get(e).and_then(|x| x.as_ref())
    }
    pub fn live_nodes(&self) -> Vec<usize> {
        (0..self.nodes.len()).filter(|&i| self.nodes[i].is_some()).collect()
    }
    pub fn live_edges(&self) -> Vec<usize> {
        (0..self.edges.len()).filter(|&i| self.edges[i].is_some()).collect()
    }
    pub fn vacant_nodes(&self) -> Vec<usize> {
        (0..self.nodes.len()).filter(|&i| self.nodes[i].is_none()).collect()
    }
    pub fn vacant_edges(&self) -> Vec<usize> {
        (0..self.edges.len()).filter(|&i| self.edges[i].is_none()).collect()
    }
    /// 1 + largest live index (0 if none): what node_bound must at least be.
    pub fn node_bound_min(&self) -> usize {
        self.nodes.iter().rposition(|n| n.is_some()).map(|i| i + 1).unwrap_or(0)
    }
    pub fn edge_bound_min(&self) -> usize {
        self.edges.iter().rposition(|n| n.is_some()).map(|i| i + 1).unwrap_or(0)
    }
    /// The index type admits `max_index` elements (indices 0..max_index-1; `max_index` itself
    /// is the reserved end marker). usize never reaches its limit.
    pub fn node_limit_reached(&self) -> bool {
        self.max_index != usize::MAX && self.n_live() >= self.max_index
    }
    pub fn edge_limit_reached(&self) -> bool {
        self.max_index != usize::MAX && self.m_live() >= self.max_index
    }
    fn edge_pos(&self, uid: u64) -> usize {
        self.edges
            .iter()
            .position(|e| e.as_ref().map(|e| e.uid) == Some(uid))
            .expect("model: edge uid not found")
    }

    // ------------------------------------------------------------------ mutations
    pub fn insert_node(&mut self, idx: usize, w: u32) {
        if self.nodes.len() <= idx {
            self.nodes.resize(idx + 1, None);
        }
        assert!(self.nodes[idx].is_none(), "model: node slot occupied");
        let uid = self.uid();
        self.nodes[idx] = Some(MNode {
            w,
            uid,
            out: vec![],
            inc: vec![],
        });
    }
    pub fn insert_edge(&mut self, idx: usize, a: usize, b: usize, w: u32) {
        if self.edges.len() <= idx {
            self.edges.resize(idx + 1, None);
        }
        assert!(self.edges[idx].is_none(), "model: edge slot occupied");
        let uid = self.uid();
        self.edges[idx] = Some(MEdge { a, b, w, uid });
        self.nodes[a].as_mut().unwrap().out.insert(0, uid);
        self.nodes[b].as_mut().unwrap().inc.insert(0, uid);
    }
    /// Append semantic used by rebuilds (index = current length).
    pub fn push_node(&mut self, w: u32) -> usize {
        let i = self.nodes.len();
        self.insert_node(i, w);
        i
    }
    pub fn push_edge(&mut self, a: usize, b: usize, w: u32) -> usize {
        let i = self.edges.len();
        self.insert_edge(i, a, b, w);
        i
    }

    /// Remove the given nodes (with all their incident edges) and the given edges.
    /// Compact model: survivors are renumbered according to the *observed* (index, weight)
    /// listing of the implementation after the call -- checked against what the
    /// documentation allows (indices stay the compact range; a survivor whose old index is
    /// below the new count keeps it, so the others can only have moved into vacated slots).
    /// Stable model: nobody moves; `observed_*` are ignored.
    pub fn remove_many(
        &mut self,
        dead_nodes: &BTreeSet<usize>,
        dead_edges_in: &BTreeSet<usize>,
        observed_nodes: &[(usize, u32)],
        observed_edges: &[(usize, u32)],
    ) -> Result<(), String> {
        let mut dead_edges = dead_edges_in.clone();
        for (i, e) in self.edges.iter().enumerate() {
            if let Some(e) = e {
                if dead_nodes.contains(&e.a) || dead_nodes.contains(&e.b) {
                    dead_edges.insert(i);
                }
            }
        }
        let dead_uids: BTreeSet<u64> = dead_edges
            .iter()
            .filter_map(|&i| self.edge(i).map(|e| e.uid))
            .collect();
        for n in self.nodes.iter_mut().flatten() {
            n.out.retain(|u| !dead_uids.contains(u));
            n.inc.retain(|u| !dead_uids.contains(u));
        }
        for &i in &dead_edges {
            if i < self.edges.len() {
                self.edges[i] = None;
            }
        }
        for &i in dead_nodes {
            if i < self.nodes.len() {
                self.nodes[i] = None;
            }
        }
        if !self.compact {
            return Ok(());
        }
        // ---- learn the node permutation
        let old_nodes = std::mem::take(&mut self.nodes);
        let new_n = old_nodes.iter().filter(|n| n.is_some()).count();
        if observed_nodes.len() != new_n {
            return Err(format!(
                "{} nodes survive in the model but the implementation lists {}",
                new_n,
                observed_nodes.len()
            ));
        }
        let mut by_w: BTreeMap<u32, usize> = BTreeMap::new();
        for (pos, &(idx, w)) in observed_nodes.iter().enumerate() {
            if idx != pos {
                return Err(format!("node indices are not the compact range: position {} has index {}", pos, idx));
            }
            if by_w.insert(w, idx).is_some() {
                return Err(format!("node weight {} listed twice after removal", w));
            }
        }
        let mut node_remap: BTreeMap<usize, usize> = BTreeMap::new();
        let mut new_nodes: Vec<Option<MNode>> = vec![None; new_n];
        for (old, n) in old_nodes.into_iter().enumerate() {
            if let Some(n) = n {
                let new = *by_w
                    .get(&n.w)
                    .ok_or_else(|| format!("surviving node (old index {}, weight {}) is missing after removal", old, n.w))?;
                if old < new_n && new != old {
                    return Err(format!(
                        "node with old index {} (< new count {}) was renumbered to {}: only nodes beyond the new range may move",
                        old, new_n, new
                    ));
                }
                node_remap.insert(old, new);
                new_nodes[new] = Some(n);
            }
        }
        self.nodes = new_nodes;
        // ---- learn the edge permutation
        let old_edges = std::mem::take(&mut self.edges);
        let new_m = old_edges.iter().filter(|n| n.is_some()).count();
        if observed_edges.len() != new_m {
            return Err(format!(
                "{} edges survive in the model but the implementation lists {}",
                new_m,
                observed_edges.len()
            ));
        }
        let mut by_w: BTreeMap<u32, usize> = BTreeMap::new();
        for (pos, &(idx, w)) in observed_edges.iter().enumerate() {
            if idx != pos {
                return Err(format!("edge indices are not the compact range: position {} has index {}", pos, idx));
            }
            if by_w.insert(w, idx).is_some() {
                return Err(format!("edge weight {} listed twice after removal", w));
            }
        }
        let mut new_edges: Vec<Option<MEdge>> = vec![None; new_m];
        for (old, e) in old_edges.into_iter().enumerate() {
            if let Some(mut e) = e {
                let new = *by_w
                    .get(&e.w)
                    .ok_or_else(|| format!("surviving edge (old index {}, weight {}) is missing after removal", old, e.w))?;
                if old < new_m && new != old {
                    return Err(format!(
                        "edge with old index {} (< new count {}) was renumbered to {}: only edges beyond the new range may move",
                        old, new_m, new
                    ));
                }
                e.a = node_remap[&e.a];
                e.b = node_remap[&e.b];
                new_edges[new] = Some(e);
            }
        }
        self.edges = new_edges;
        Ok(())
    }

    pub fn reverse(&mut self) {
        for e in self.edges.iter_mut().flatten() {
            std::mem::swap(&mut e.a, &mut e.b);
        }
        for n in self.nodes.iter_mut().flatten() {
            std::mem::swap(&mut n.out, &mut n.inc);
        }
    }
    pub fn clear(&mut self) {
        self.nodes.clear();
        self.edges.clear();
    }
    pub fn clear_edges(&mut self) {
        self.edges.clear();
        for n in self.nodes.iter_mut().flatten() {
            n.out.clear();
            n.inc.clear();
        }
    }

    // ------------------------------------------------------------------ expected answers
    pub fn joins(&self, e: &MEdge, a: usize, b: usize) -> bool {
        (e.a == a && e.b == b) || (!self.directed && e.a == b && e.b == a)
    }
    /// Edges that `find_edge(a, b)` may legally return.
    pub fn edges_joining(&self, a: usize, b: usize) -> Vec<usize> {
        (0..self.edges.len())
            .filter(|&i| self.edge(i).map(|e| self.joins(e, a, b)).unwrap_or(false))
            .collect()
    }
    /// (edge, source, target, weight) for the out list of `a`, in recency order.
    pub fn out_list(&self, a: usize) -> Vec<EdgeObs> {
        match self.node(a) {
            None => vec![],
            Some(n) => n
                .out
                .iter()
                .map(|&u| {
                    let i = self.edge_pos(u);
                    let e = self.edge(i).unwrap();
                    (i, e.a, e.b, e.w)
                })
                .collect(),
        }
    }
    pub fn in_list(&self, a: usize) -> Vec<EdgeObs> {
        match self.node(a) {
            None => vec![],
            Some(n) => n
                .inc
                .iter()
                .map(|&u| {
                    let i = self.edge_pos(u);
                    let e = self.edge(i).unwrap();
                    (i, e.a, e.b, e.w)
                })
                .collect(),
        }
    }
    /// Every edge incident to `a` once (a self-loop once), as stored.
    pub fn incident_once(&self, a: usize) -> Vec<EdgeObs> {
        let mut v = self.out_list(a);
        v.extend(self.in_list(a).into_iter().filter(|e| e.1 != a));
        v
    }

    pub fn hash(&self) -> u64 {
        let mut h = StateHasher::new();
        h.add(self.directed as u64);
        h.add(self.nodes.len() as u64);
        for n in &self.nodes {
            h.add(n.is_some() as u64);
        }
        h.add(self.edges.len() as u64);
        for e in &self.edges {
            match e {
                None => h.add(u64::MAX),
                Some(e) => h.add(((e.a as u64) << 32) | e.b as u64),
            }
        }
        // recency structure (positions, not uids, so the hash is canonical)
        for i in 0..self.nodes.len() {
            if self.nodes[i].is_some() {
                for (e, ..) in self.out_list(i) {
                    h.add(e as u64);
                }
                h.add(0xFFFF_0000);
            }
        }
        h.finish()
    }
}
