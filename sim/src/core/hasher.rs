//! Simulator-owned `BuildHasher` for the `S` type parameter of GraphMap / MatrixGraph /
//! all_simple_paths (an existing seam in petgraph). Modes: good, low-entropy (4 buckets),
//! constant (everything collides) -- "any BuildHasher" must give the same answers.

use std::cell::Cell;
use std::hash::{BuildHasher, Hasher};

thread_local! {
    static CURRENT: Cell<(u64, u8)> = const { Cell::new((0x1234_5678_9abc_def0, 0)) };
}

/// Configure what `SimBuildHasher::default()` returns on this thread (needed for API entry
/// points that construct the hasher themselves: `new`, `from_edges`, `from_graph`, ...).
pub fn set_sim_hasher(seed: u64, mode: u8) {
    CURRENT.with(|c| c.set((seed, mode)));
}

#[derive(Clone, Copy, Debug)]
pub struct SimBuildHasher {
    pub seed: u64,
    pub mode: u8,
}

impl Default for SimBuildHasher {
    fn default() -> Self {
        let (seed, mode) = CURRENT.with(|c| c.get());
        SimBuildHasher { seed, mode }
    }
}

pub struct SimHasher {
    state: u64,
    mode: u8,
}

impl BuildHasher for SimBuildHasher {
    type Hasher = SimHasher;
    fn build_hasher(&self) -> SimHasher {
        SimHasher {
            state: self.seed,
            mode: self.mode,
        }
    }
}

impl Hasher for SimHasher {
    fn write(&mut self, bytes: &[u8]) {
        for &b in bytes {
            self.state = (self.state ^ b as u64).wrapping_mul(0x0000_0100_0000_01B3);
        }
    }
    fn finish(&self) -> u64 {
        let h = super::mix(self.state, 0x9E37_79B9);
        match self.mode {
            0 => h,
            1 => h & 3,
            _ => 0,
        }
    }
}
