//! Generic minimisation of an explicit case `{ "cfg": {...}, "ops": [ ... ] }`.
//!
//! Every engine accepts absent / stale indices as part of its input domain, so every
//! subsequence of a history is again a legal history: no precondition repair is needed.
//! Order: drop the tail after the failing step, ddmin over chunks, drop single ops, shrink
//! integer arguments inside ops, then shrink integer configuration values that the engine
//! lists under `cfg.shrinkable`.

use super::{Acc, Engine, Shared};
use serde_json::Value;
use std::time::{Duration, Instant};

pub struct ShrinkStats {
    pub executions: u64,
    pub ops_before: usize,
    pub ops_after: usize,
}

/// Executes candidates on a worker thread that can be abandoned: a candidate may drive the code
/// under test into an endless loop (a corrupted edge list is a cycle), and a thread cannot be
/// killed, so after `per_candidate` the worker is left behind (it dies with the process) and a
/// fresh one takes over.  A candidate that does not finish counts as "does not reproduce".
pub struct CandidateRunner {
    engine_name: String,
    class: String,
    known: Vec<String>,
    per_candidate: Duration,
    tx: Option<std::sync::mpsc::Sender<Value>>,
    rx: Option<std::sync::mpsc::Receiver<Option<(usize, String)>>>,
    pub abandoned: u32,
}

impl CandidateRunner {
    pub fn new(engine_name: &str, class: &str, known: &[String], per_candidate: Duration) -> Self {
        CandidateRunner {
            engine_name: engine_name.to_string(),
            class: class.to_string(),
            // recorded findings stay skipped while minimising (unless the case is about one)
            known: known.iter().filter(|k| !super::class_is_known(&[(*k).clone()], class)).cloned().collect(),
            per_candidate,
            tx: None,
            rx: None,
            abandoned: 0,
        }
    }

    fn spawn(&mut self) {
        let (tx, wrx) = std::sync::mpsc::channel::<Value>();
        let (wtx, rx) = std::sync::mpsc::channel::<Option<(usize, String)>>();
        let name = self.engine_name.clone();
        let class = self.class.clone();
        let known = self.known.clone();
        std::thread::Builder::new()
            .stack_size(256 << 20)
            .spawn(move || {
                let engine: Box<dyn Engine> = match crate::engines::get(&name) {
                    Some(e) => e,
                    None => return,
                };
                let mut acc = Acc::new(Shared::new());
                acc.known = std::sync::Arc::new(known);
                while let Ok(case) = wrx.recv() {
                    acc.begin_run(0);
                    let r = match engine.run_case(&case, &mut acc) {
                        Ok(out) => match out.violation {
                            Some(v) if v.class == class => Some((v.step, v.detail)),
                            _ => None,
                        },
                        Err(_) => None,
                    };
                    if wtx.send(r).is_err() {
                        return;
                    }
                }
            })
            .expect("spawn candidate worker");
        self.tx = Some(tx);
        self.rx = Some(rx);
    }

    /// `Some((fail step, detail))` when the candidate fails with the same class.
    pub fn run(&mut self, case: &Value) -> Option<(usize, String)> {
        if self.abandoned >= 6 {
            return None;
        }
        if self.tx.is_none() {
            self.spawn();
        }
        if self.tx.as_ref().unwrap().send(case.clone()).is_err() {
            self.tx = None;
            self.rx = None;
            return None;
        }
        match self.rx.as_ref().unwrap().recv_timeout(self.per_candidate) {
            Ok(r) => r,
            Err(_) => {
                // hung (or the worker died): leave it behind
                self.abandoned += 1;
                self.tx = None;
                self.rx = None;
                None
            }
        }
    }
}

fn fails_same(runner: &mut CandidateRunner, case: &Value) -> Option<usize> {
    runner.run(case).map(|x| x.0)
}

fn ops_of(case: &Value) -> Vec<Value> {
    case.get("ops")
        .and_then(|o| o.as_array())
        .cloned()
        .unwrap_or_default()
}

fn with_ops(case: &Value, ops: Vec<Value>) -> Value {
    let mut c = case.clone();
    c["ops"] = Value::Array(ops);
    c
}

/// Collect paths to integer leaves of a JSON value.
fn int_paths(v: &Value, cur: &mut Vec<PathEl>, out: &mut Vec<Vec<PathEl>>) {
    match v {
        Value::Number(n) if n.is_u64() || n.is_i64() => out.push(cur.clone()),
        Value::Array(a) => {
            for (i, x) in a.iter().enumerate() {
                cur.push(PathEl::Idx(i));
                int_paths(x, cur, out);
                cur.pop();
            }
        }
        Value::Object(m) => {
            for (k, x) in m.iter() {
                cur.push(PathEl::Key(k.clone()));
                int_paths(x, cur, out);
                cur.pop();
            }
        }
        _ => {}
    }
}

#[derive(Clone)]
enum PathEl {
    Idx(usize),
    Key(String),
}

fn get_mut<'a>(v: &'a mut Value, path: &[PathEl]) -> Option<&'a mut Value> {
    let mut cur = v;
    for p in path {
        cur = match p {
            PathEl::Idx(i) => cur.get_mut(*i)?,
            PathEl::Key(k) => cur.get_mut(k.as_str())?,
        };
    }
    Some(cur)
}

pub fn minimise(
    runner: &mut CandidateRunner,
    case: &Value,
    fail_step: usize,
    budget: Duration,
    on_improve: &mut dyn FnMut(&Value),
) -> (Value, ShrinkStats) {
    let t0 = Instant::now();
    let mut best = case.clone();
    let mut execs = 0u64;
    let ops_before = ops_of(case).len();
    let over = |t0: &Instant| t0.elapsed() > budget;
    let _ = &over;

    // 0. truncate after the failing step
    {
        let ops = ops_of(&best);
        if fail_step + 1 < ops.len() {
            let cand = with_ops(&best, ops[..=fail_step].to_vec());
            execs += 1;
            if fails_same(runner, &cand).is_some() {
                best = cand;
                on_improve(&best);
            }
        }
    }
    // 1+2 are repeated until neither makes progress (argument shrinking often makes more
    // operations droppable, e.g. once an index has been reduced to 0)
    for _round in 0..5 {
        let ops_at_round_start = serde_json::to_string(&best["ops"]).unwrap_or_default();
        // 1. ddmin over chunks
        let mut chunk = (ops_of(&best).len() / 2).max(1);
        loop {
            let mut progress = false;
            let mut start = 0usize;
            loop {
                let ops = ops_of(&best);
                if start >= ops.len() || over(&t0) {
                    break;
                }
                let end = (start + chunk).min(ops.len());
                let mut cand_ops = ops[..start].to_vec();
                cand_ops.extend_from_slice(&ops[end..]);
                let cand = with_ops(&best, cand_ops);
                execs += 1;
                if fails_same(runner, &cand).is_some() {
                    best = cand;
                on_improve(&best);
                    progress = true;
                    // keep `start`: the next chunk slid into place
                } else {
                    start = end;
                }
            }
            if over(&t0) {
                break;
            }
            if chunk == 1 {
                if !progress {
                    break;
                }
            } else {
                chunk = (chunk / 2).max(1);
            }
        }
        // 2. shrink integer arguments inside ops (towards 0), a few passes
        for _pass in 0..3 {
            let mut progress = false;
            let n_ops = ops_of(&best).len();
            for oi in 0..n_ops {
                if over(&t0) {
                    break;
                }
                let ops = ops_of(&best);
                let mut paths = Vec::new();
                int_paths(&ops[oi], &mut Vec::new(), &mut paths);
                for p in paths {
                    let ops = ops_of(&best);
                    let mut op = ops[oi].clone();
                    let cur = match get_mut(&mut op, &p).and_then(|v| v.as_i64()) {
                        Some(c) => c,
                        None => continue,
                    };
                    if cur == 0 {
                        continue;
                    }
                    let mut cands = vec![0i64, cur / 2, cur - cur.signum()];
                    cands.dedup();
                    for c in cands {
                        if c == cur {
                            continue;
                        }
                        let mut op2 = ops[oi].clone();
                        if let Some(slot) = get_mut(&mut op2, &p) {
                            *slot = Value::from(c);
                        }
                        let mut ops2 = ops.clone();
                        ops2[oi] = op2;
                        let cand = with_ops(&best, ops2);
                        execs += 1;
                        if fails_same(runner, &cand).is_some() {
                            best = cand;
                on_improve(&best);
                            progress = true;
                            break;
                        }
                    }
                }
            }
            if !progress || over(&t0) {
                break;
            }
        }

        if over(&t0) || serde_json::to_string(&best["ops"]).unwrap_or_default() == ops_at_round_start {
            break;
        }
    }
    // 3. shrink the configuration integers the engine marks shrinkable
    if let Some(list) = best
        .get("cfg")
        .and_then(|c| c.get("shrinkable"))
        .and_then(|s| s.as_array())
        .cloned()
    {
        for key in list.iter().filter_map(|k| k.as_str()) {
            if over(&t0) {
                break;
            }
            let cur = match best["cfg"].get(key).and_then(|v| v.as_i64()) {
                Some(c) => c,
                None => continue,
            };
            for c in [0i64, cur / 2] {
                if c == cur {
                    continue;
                }
                let mut cand = best.clone();
                cand["cfg"][key] = Value::from(c);
                execs += 1;
                if fails_same(runner, &cand).is_some() {
                    best = cand;
                on_improve(&best);
                    break;
                }
            }
        }
    }
    let ops_after = ops_of(&best).len();
    (
        best,
        ShrinkStats {
            executions: execs,
            ops_before,
            ops_after,
        },
    )
}
