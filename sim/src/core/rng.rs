//! The only source of randomness in the simulator: xoshiro256** seeded through splitmix64.
//! No dependency on `rand`, so the stream for a given seed can never change under us.

#[derive(Clone, Debug)]
pub struct Rng {
    s: [u64; 4],
}

#[inline]
fn splitmix(x: &mut u64) -> u64 {
    *x = x.wrapping_add(0x9E37_79B9_7F4A_7C15);
    let mut z = *x;
    z = (z ^ (z >> 30)).wrapping_mul(0xBF58_476D_1CE4_E5B9);
    z = (z ^ (z >> 27)).wrapping_mul(0x94D0_49BB_1331_11EB);
    z ^ (z >> 31)
}

/// Stateless mixing of two words (used to derive per-run seeds and digests).
#[inline]
pub fn mix(a: u64, b: u64) -> u64 {
    let mut x = a ^ b.rotate_left(32) ^ 0xD6E8_FEB8_6659_FD93;
    x = (x ^ (x >> 32)).wrapping_mul(0xD6E8_FEB8_6659_FD93);
    x = (x ^ (x >> 32)).wrapping_mul(0xD6E8_FEB8_6659_FD93);
    x ^= b;
    x = (x ^ (x >> 29)).wrapping_mul(0x94D0_49BB_1331_11EB);
    x ^ (x >> 32)
}

/// FNV-1a over bytes (stable string / byte hashing for digests and known-finding keys).
pub fn fnv(bytes: &[u8]) -> u64 {
    let mut h: u64 = 0xcbf2_9ce4_8422_2325;
    for &b in bytes {
        h ^= b as u64;
        h = h.wrapping_mul(0x0000_0100_0000_01B3);
    }
    h
}

impl Rng {
    pub fn new(seed: u64) -> Rng {
        let mut x = seed;
        let s = [
            splitmix(&mut x),
            splitmix(&mut x),
            splitmix(&mut x),
            splitmix(&mut x),
        ];
        Rng { s }
    }

    #[inline]
    pub fn next_u64(&mut self) -> u64 {
        let result = self.s[1].wrapping_mul(5).rotate_left(7).wrapping_mul(9);
        let t = self.s[1] << 17;
        self.s[2] ^= self.s[0];
        self.s[3] ^= self.s[1];
        self.s[1] ^= self.s[2];
        self.s[0] ^= self.s[3];
        self.s[2] ^= t;
        self.s[3] = self.s[3].rotate_left(45);
        result
    }

    /// Uniform in `0..n` (n > 0). Multiply-shift; the tiny bias is irrelevant here.
    #[inline]
    pub fn below(&mut self, n: usize) -> usize {
        debug_assert!(n > 0);
        (((self.next_u64() >> 32) * (n as u64)) >> 32) as usize
    }

    /// Uniform in `lo..=hi`.
    #[inline]
    pub fn range(&mut self, lo: usize, hi: usize) -> usize {
        lo + self.below(hi - lo + 1)
    }

    /// True with probability num/den.
    #[inline]
    pub fn chance(&mut self, num: u32, den: u32) -> bool {
        (self.below(den as usize) as u32) < num
    }

    #[inline]
    pub fn pick<'a, T>(&mut self, xs: &'a [T]) -> &'a T {
        &xs[self.below(xs.len())]
    }

    /// Geometric-ish length: mean about `mean`, capped at `cap`, at least `min`.
    pub fn geometric(&mut self, min: usize, mean: usize, cap: usize) -> usize {
        let mut n = min;
        while n < cap && !self.chance(1, (mean.max(1)) as u32) {
            n += 1;
        }
        n
    }

    /// Independent child stream.
    pub fn fork(&mut self) -> Rng {
        Rng::new(self.next_u64())
    }

    pub fn i32_small(&mut self) -> i32 {
        (self.below(41) as i32) - 20
    }
}
