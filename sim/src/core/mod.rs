//! Simulator core shared by all engines: PRNG, per-worker accumulators, violation type,
//! engine trait, panic capture.

pub mod evidence;
pub mod hasher;
pub mod rng;
pub mod runner;
pub mod shrink;

use serde_json::Value;
use std::cell::RefCell;
use std::collections::BTreeMap;
use std::panic::{catch_unwind, AssertUnwindSafe};
use std::sync::atomic::{AtomicU64, Ordering};
use std::sync::Arc;

pub use rng::{fnv, mix, Rng};

#[derive(Clone, Copy, PartialEq, Eq, Debug)]
pub enum Tier {
    Quick,
    Thorough,
}

impl Tier {
    pub fn as_str(self) -> &'static str {
        match self {
            Tier::Quick => "quick",
            Tier::Thorough => "thorough",
        }
    }
}

/// A property violation observed on the real code.
#[derive(Clone, Debug)]
pub struct Violation {
    /// Stable class string `<engine>/<operation>/<check>`; shrinking preserves it, and
    /// known-findings are keyed by it.
    pub class: String,
    pub detail: String,
    pub step: usize,
}

impl Violation {
    pub fn new(class: impl Into<String>, detail: impl Into<String>, step: usize) -> Violation {
        Violation {
            class: class.into(),
            detail: detail.into(),
            step,
        }
    }
}

pub type Check = Result<(), Violation>;

/// Fixed-size atomic bitmap used for "distinct states / distinct cases" lower bounds
/// (number of set bits <= number of distinct hashes inserted).
pub struct Bitmap {
    bits: Vec<AtomicU64>,
    mask: u64,
}

impl Bitmap {
    pub fn new(log2_bits: u32) -> Bitmap {
        let words = 1usize << (log2_bits - 6);
        let mut bits = Vec::with_capacity(words);
        for _ in 0..words {
            bits.push(AtomicU64::new(0));
        }
        Bitmap {
            bits,
            mask: (1u64 << log2_bits) - 1,
        }
    }
    #[inline]
    pub fn insert(&self, hash: u64) {
        let h = hash & self.mask;
        self.bits[(h >> 6) as usize].fetch_or(1u64 << (h & 63), Ordering::Relaxed);
    }
    pub fn count(&self) -> u64 {
        self.bits
            .iter()
            .map(|w| w.load(Ordering::Relaxed).count_ones() as u64)
            .sum()
    }
    pub fn capacity(&self) -> u64 {
        self.mask + 1
    }
}

/// Shared (across workers) coverage sets.
pub struct Shared {
    pub states: Bitmap,
    pub cases: Bitmap,
    pub transitions: Bitmap,
}

impl Shared {
    pub fn new() -> Arc<Shared> {
        Arc::new(Shared {
            states: Bitmap::new(26),
            cases: Bitmap::new(26),
            transitions: Bitmap::new(16),
        })
    }
}

/// Per-worker accumulator. Everything in here is a commutative sum / union, so the merged
/// result is independent of how runs were distributed over workers.
pub struct Acc {
    pub shared: Arc<Shared>,
    pub faults: BTreeMap<&'static str, u64>,
    pub probes: BTreeMap<&'static str, u64>,
    pub opkinds: BTreeMap<&'static str, u64>,
    pub ops: u64,
    pub steps_checked: u64,
    /// digest of the run in flight
    pub run_digest: u64,
    last_kind: u8,
    /// known-finding classes (exact, or prefix when ending in '*') for the property being
    /// run; an engine that can continue past a known finding asks `is_known` and records
    /// the hit instead of aborting the run
    pub known: Arc<Vec<String>>,
    pub known_hits: BTreeMap<String, u64>,
}

impl Acc {
    pub fn new(shared: Arc<Shared>) -> Acc {
        Acc {
            shared,
            faults: BTreeMap::new(),
            probes: BTreeMap::new(),
            opkinds: BTreeMap::new(),
            ops: 0,
            steps_checked: 0,
            run_digest: 0,
            last_kind: 255,
            known: Arc::new(Vec::new()),
            known_hits: BTreeMap::new(),
        }
    }
    pub fn is_known(&self, class: &str) -> bool {
        class_is_known(&self.known, class)
    }
    pub fn known_hit(&mut self, class: &str) {
        *self.known_hits.entry(class.to_string()).or_insert(0) += 1;
    }
    pub fn begin_run(&mut self, seed: u64) {
        self.run_digest = seed;
        self.last_kind = 255;
    }
    /// A fault of this kind actually fired (not merely configured).
    #[inline]
    pub fn fault(&mut self, kind: &'static str) {
        *self.faults.entry(kind).or_insert(0) += 1;
    }
    /// A rare condition we care about was reached.
    #[inline]
    pub fn probe(&mut self, name: &'static str) {
        *self.probes.entry(name).or_insert(0) += 1;
    }
    #[inline]
    pub fn probe_if(&mut self, cond: bool, name: &'static str) {
        if cond {
            self.probe(name);
        }
    }
    /// An operation of this kind was applied. `code` is a small per-engine number used for
    /// the (op-kind, op-kind) transition measure.
    #[inline]
    pub fn op(&mut self, kind: &'static str, code: u8) {
        *self.opkinds.entry(kind).or_insert(0) += 1;
        self.ops += 1;
        if self.last_kind != 255 {
            self.shared
                .transitions
                .insert(((self.last_kind as u64) << 8) | code as u64);
        }
        self.last_kind = code;
        self.trace(code as u64);
    }
    /// Abstract state reached (hash of the canonical model state).
    #[inline]
    pub fn state(&mut self, hash: u64) {
        self.shared.states.insert(hash);
        self.steps_checked += 1;
        self.trace(hash);
    }
    /// Fold something observable into the run digest (determinism proof).
    #[inline]
    pub fn trace(&mut self, x: u64) {
        self.run_digest = mix(self.run_digest, x);
    }
    pub fn merge(&mut self, other: &Acc) {
        for (k, v) in &other.faults {
            *self.faults.entry(k).or_insert(0) += v;
        }
        for (k, v) in &other.probes {
            *self.probes.entry(k).or_insert(0) += v;
        }
        for (k, v) in &other.opkinds {
            *self.opkinds.entry(k).or_insert(0) += v;
        }
        self.ops += other.ops;
        self.steps_checked += other.steps_checked;
        for (k, v) in &other.known_hits {
            *self.known_hits.entry(k.clone()).or_insert(0) += v;
        }
    }
}

pub fn class_is_known(known: &[String], class: &str) -> bool {
    known.iter().any(|k| match k.strip_suffix('*') {
        Some(prefix) => class.starts_with(prefix),
        None => k == class,
    })
}

/// Result of one simulated run.
pub struct RunOutput {
    pub violation: Option<Violation>,
    /// Explicit replayable case (configuration + concrete operation/fault list). Always
    /// present when `violation` is, or when the caller asked for it.
    pub case: Option<Value>,
    /// Hash of the explicit case (for the distinct-case measure).
    pub case_hash: u64,
    /// Non-trivial by the engine's stated rule.
    pub nontrivial: bool,
}

pub trait Engine: Sync + Send {
    fn name(&self) -> &'static str;
    /// Rule that makes a run non-trivial (goes into the evidence file).
    fn rule(&self) -> &'static str;
    /// Generate and execute one run; a pure function of `seed` and the code under test.
    fn run_seed(&self, seed: u64, tier: Tier, want_case: bool, acc: &mut Acc) -> RunOutput;
    /// Execute an explicit case (replay / shrinking).
    fn run_case(&self, case: &Value, acc: &mut Acc) -> Result<RunOutput, String>;
}

// ---------------------------------------------------------------------------
// panic capture
// ---------------------------------------------------------------------------

thread_local! {
    static LAST_PANIC: RefCell<Option<String>> = const { RefCell::new(None) };
}

/// Install a quiet panic hook that records the message (and location) per thread.
pub fn install_panic_hook() {
    let verbose = std::env::var("VERIF_PANIC_TRACE").is_ok();
    std::panic::set_hook(Box::new(move |info| {
        let msg = if let Some(s) = info.payload().downcast_ref::<&str>() {
            s.to_string()
        } else if let Some(s) = info.payload().downcast_ref::<String>() {
            s.clone()
        } else {
            "<non-string panic>".to_string()
        };
        let loc = info
            .location()
            .map(|l| format!("{}:{}", l.file(), l.line()))
            .unwrap_or_default();
        if verbose {
            eprintln!("[panic] {} @ {}", msg, loc);
        }
        LAST_PANIC.with(|p| *p.borrow_mut() = Some(format!("{} @ {}", msg, loc)));
    }));
}

/// Run `f`, turning a panic into `Err(message)`.
pub fn catch<R>(f: impl FnOnce() -> R) -> Result<R, String> {
    match catch_unwind(AssertUnwindSafe(f)) {
        Ok(r) => Ok(r),
        Err(_) => Err(LAST_PANIC
            .with(|p| p.borrow_mut().take())
            .unwrap_or_else(|| "<panic>".to_string())),
    }
}

/// Was the panic raised from inside the code under test (a path under /repo), as opposed
/// to the harness? Used to tell a property violation from a harness error.
pub fn panic_in_sut(msg: &str) -> bool {
    match msg.rfind(" @ ") {
        Some(i) => {
            let loc = &msg[i + 3..];
            !loc.contains("verif/sim/src") && !loc.starts_with("src/")
        }
        None => true,
    }
}

/// Hash helper for canonical model states.
#[derive(Default)]
pub struct StateHasher(pub u64);
impl StateHasher {
    pub fn new() -> Self {
        StateHasher(0x5151_5151_0BAD_CAFE)
    }
    #[inline]
    pub fn add(&mut self, x: u64) {
        self.0 = mix(self.0, x);
    }
    pub fn finish(&self) -> u64 {
        self.0
    }
}
