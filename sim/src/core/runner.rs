//! Batch runner: N seeded runs of one engine distributed over worker threads, with a
//! supervisor that turns an over-budget run into a "hang" report. Results are independent
//! of the worker count (per-run seeds depend only on the run index; all accumulators are
//! commutative; the reported violation is the one with the smallest run index).

use super::{mix, Acc, Engine, Shared, Tier, Violation};
use serde_json::{json, Value};
use std::collections::BTreeMap;
use std::sync::atomic::{AtomicBool, AtomicU64, Ordering};
use std::sync::{Arc, Mutex};
use std::time::{Duration, Instant};

pub struct Found {
    pub run_index: u64,
    pub run_seed: u64,
    pub violation: Violation,
    pub case: Value,
}

pub struct BatchResult {
    pub engine: &'static str,
    pub rule: &'static str,
    pub runs: u64,
    pub nontrivial_runs: u64,
    pub acc: Acc,
    pub digest: u64,
    pub wall_s: f64,
    /// first (smallest run index) violation that is not a known finding
    pub found: Option<Found>,
    /// known findings that were hit: class -> (count, first run seed)
    pub known_hits: BTreeMap<String, (u64, u64)>,
    pub samples: Vec<Value>,
    pub hang: Option<(u64, u64)>,
}

pub fn run_seed_for(base_seed: u64, engine: &str, run_index: u64) -> u64 {
    mix(mix(base_seed, super::fnv(engine.as_bytes())), run_index)
}

pub struct BatchCfg {
    pub base_seed: u64,
    pub tier: Tier,
    /// first run index of this batch (sub-ranges are used to locate a run that kills the process)
    pub start: u64,
    pub runs: u64,
    pub workers: usize,
    pub known_classes: Vec<String>,
    pub hang_budget: Duration,
    pub want_samples: usize,
}

struct Slot {
    run_plus1: AtomicU64,
    start_ms: AtomicU64,
    /// run (plus one) that exceeded its budget here but finished in time in a fresh process:
    /// the machine is slow or overloaded, the run is not a hang
    forgiven_plus1: AtomicU64,
}

pub fn run_batch(engine: &dyn Engine, cfg: &BatchCfg, shared: Arc<Shared>) -> BatchResult {
    let t0 = Instant::now();
    let next = AtomicU64::new(cfg.start);
    let limit = AtomicU64::new(cfg.start + cfg.runs);
    let found: Mutex<Option<Found>> = Mutex::new(None);
    let known_hits: Mutex<BTreeMap<String, (u64, u64)>> = Mutex::new(BTreeMap::new());
    let samples: Mutex<Vec<(u64, Value)>> = Mutex::new(Vec::new());
    let digest = AtomicU64::new(0);
    let nontrivial = AtomicU64::new(0);
    let runs_done = AtomicU64::new(0);
    let done = AtomicBool::new(false);
    let slots: Vec<Slot> = (0..cfg.workers)
        .map(|_| Slot {
            run_plus1: AtomicU64::new(0),
            start_ms: AtomicU64::new(0),
            forgiven_plus1: AtomicU64::new(0),
        })
        .collect();
    let accs: Mutex<Vec<Acc>> = Mutex::new(Vec::new());
    let hang: Mutex<Option<(u64, u64)>> = Mutex::new(None);

    std::thread::scope(|scope| {
        let mut handles = Vec::new();
        for w in 0..cfg.workers {
            let shared = shared.clone();
            let (next, limit, found, known_hits, samples, digest, nontrivial, runs_done, slots, accs) = (
                &next,
                &limit,
                &found,
                &known_hits,
                &samples,
                &digest,
                &nontrivial,
                &runs_done,
                &slots,
                &accs,
            );
            let h = std::thread::Builder::new()
                .name(format!("sim-worker-{}", w))
                .stack_size(64 << 20)
                .spawn_scoped(scope, move || {
                    let mut acc = Acc::new(shared);
                    acc.known = std::sync::Arc::new(cfg.known_classes.clone());
                    loop {
                        let i = next.fetch_add(1, Ordering::Relaxed);
                        if i >= limit.load(Ordering::Relaxed) {
                            break;
                        }
                        let seed = run_seed_for(cfg.base_seed, engine.name(), i);
                        slots[w]
                            .start_ms
                            .store(t0.elapsed().as_millis() as u64, Ordering::Relaxed);
                        slots[w].run_plus1.store(i + 1, Ordering::Release);
                        acc.begin_run(seed);
                        let want_case = ((i - cfg.start) as usize) < cfg.want_samples;
                        let out = engine.run_seed(seed, cfg.tier, want_case, &mut acc);
                        slots[w].run_plus1.store(0, Ordering::Release);
                        runs_done.fetch_add(1, Ordering::Relaxed);
                        if out.nontrivial {
                            acc.shared.cases.insert(out.case_hash);
                            nontrivial.fetch_add(1, Ordering::Relaxed);
                        }
                        // order-independent combination of per-run digests
                        digest.fetch_add(mix(acc.run_digest, i), Ordering::Relaxed);
                        if want_case {
                            if let Some(c) = &out.case {
                                samples.lock().unwrap().push((i, c.clone()));
                            }
                        }
                        if let Some(v) = out.violation {
                            if super::class_is_known(&cfg.known_classes, &v.class) {
                                let mut kh = known_hits.lock().unwrap();
                                let e = kh.entry(v.class.clone()).or_insert((0, seed));
                                e.0 += 1;
                            } else {
                                let mut f = found.lock().unwrap();
                                let better = match &*f {
                                    None => true,
                                    Some(old) => i < old.run_index,
                                };
                                if better {
                                    *f = Some(Found {
                                        run_index: i,
                                        run_seed: seed,
                                        violation: v,
                                        case: out.case.unwrap_or(Value::Null),
                                    });
                                }
                                limit.fetch_min(i, Ordering::Relaxed);
                            }
                        }
                    }
                    accs.lock().unwrap().push(acc);
                })
                .expect("spawn worker");
            handles.push(h);
        }
        // supervisor
        let sup_done = &done;
        let sup = scope.spawn(|| {
            while !sup_done.load(Ordering::Acquire) {
                std::thread::sleep(Duration::from_millis(50));
                let now = t0.elapsed().as_millis() as u64;
                for s in slots.iter() {
                    let r = s.run_plus1.load(Ordering::Acquire);
                    if r != 0 {
                        let st = s.start_ms.load(Ordering::Relaxed);
                        let over = now.saturating_sub(st);
                        let budget = cfg.hang_budget.as_millis() as u64;
                        if over > budget && s.run_plus1.load(Ordering::Acquire) == r {
                            let idx = r - 1;
                            let seed = run_seed_for(cfg.base_seed, engine.name(), idx);
                            if s.forgiven_plus1.load(Ordering::Relaxed) == r {
                                // a run that terminates in a fresh process but not here after
                                // twenty budgets cannot be decided: harness error, not a verdict
                                if over > budget * 20 {
                                    eprintln!("[sim] run {} (seed {:#x}) of engine {} terminates in a fresh process but not in the batch; harness error", idx, seed, engine.name());
                                    std::process::exit(2);
                                }
                                continue;
                            }
                            // A wall-clock budget alone must never decide: the same run is
                            // executed in a fresh process; only if it does not terminate there
                            // either is it reported.  Otherwise the machine is slow or overloaded.
                            if confirm_hang(engine.name(), idx, seed, cfg.tier) {
                                *hang.lock().unwrap() = Some((idx, seed));
                                return true;
                            }
                            s.forgiven_plus1.store(r, Ordering::Relaxed);
                        }
                    }
                }
            }
            false
        });
        // wait for workers unless the supervisor reports a hang first
        loop {
            if handles.iter().all(|h| h.is_finished()) {
                done.store(true, Ordering::Release);
                break;
            }
            if sup.is_finished() {
                break;
            }
            std::thread::sleep(Duration::from_millis(5));
        }
        let hung = sup.join().unwrap_or(false);
        if hung {
            // We cannot kill the stuck worker thread; the caller handles the report and
            // exits the process. Leak the scope by exiting here.
            let (idx, seed) = hang.lock().unwrap().unwrap();
            let prop = std::env::var("VERIF_PROPERTY").unwrap_or_else(|_| "UNKNOWN".into());
            println!("VIOLATION property={} replay={}", prop, hang_replay_path(engine.name(), seed).display());
            let _ = (idx, seed);
            std::process::exit(1);
        }
        for h in handles {
            let _ = h.join();
        }
    });

    let mut acc = Acc::new(shared);
    for a in accs.lock().unwrap().iter() {
        acc.merge(a);
    }
    let mut known_hits = known_hits.into_inner().unwrap();
    for (k, v) in &acc.known_hits {
        let e = known_hits.entry(k.clone()).or_insert((0, 0));
        e.0 += v;
    }
    let mut s = samples.into_inner().unwrap();
    s.sort_by_key(|x| x.0);
    let hang_v = *hang.lock().unwrap();
    BatchResult {
        engine: engine.name(),
        rule: engine.rule(),
        runs: runs_done.load(Ordering::Relaxed),
        nontrivial_runs: nontrivial.load(Ordering::Relaxed),
        acc,
        digest: digest.load(Ordering::Relaxed),
        wall_s: t0.elapsed().as_secs_f64(),
        found: found.into_inner().unwrap(),
        known_hits,
        samples: s.into_iter().map(|x| x.1).collect(),
        hang: hang_v,
    }
}

fn hang_replay_path(engine: &str, seed: u64) -> std::path::PathBuf {
    let prop = std::env::var("VERIF_PROPERTY").unwrap_or_else(|_| "UNKNOWN".into());
    crate::verif_dir().join("replays").join(format!("{}-{}-hang-{:016x}.json", prop, engine, seed))
}

/// A run exceeded its wall budget. Write a seed replay and execute it in a fresh process:
/// true when it does not terminate there either (the replay file stays), false when it
/// finishes (the file is removed: nothing to report).
pub fn confirm_hang(engine: &str, idx: u64, seed: u64, tier: Tier) -> bool {
    let prop = std::env::var("VERIF_PROPERTY").unwrap_or_else(|_| "UNKNOWN".into());
    let path = hang_replay_path(engine, seed);
    if let Some(d) = path.parent() {
        let _ = std::fs::create_dir_all(d);
    }
    let doc = json!({
        "property": prop,
        "engine": engine,
        "kind": "seed",
        "run_seed": seed,
        "run_index": idx,
        "tier": tier.as_str(),
        "expected_class": format!("{}/hang", engine),
        "note": "run exceeded its wall-clock budget (possible infinite loop); replay regenerates the run from run_seed",
    });
    let _ = std::fs::write(&path, serde_json::to_string_pretty(&doc).unwrap());
    eprintln!(
        "[sim] run {} (seed {:#x}) of engine {} exceeded its budget; executing it in a fresh process",
        idx, seed, engine
    );
    let confirmed = crate::confirm_replay(&path, &format!("{}/hang", engine));
    if !confirmed {
        eprintln!("[sim] the run terminates in a fresh process: slow or overloaded machine, not a hang; continuing");
        let _ = std::fs::remove_file(&path);
    }
    confirmed
}
