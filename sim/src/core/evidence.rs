//! Evidence parts (one per build profile) and their merge into /verif/evidence/<id>.json.

use super::runner::BatchResult;
use serde_json::{json, Map, Value};
use std::collections::BTreeMap;

pub fn batch_to_json(b: &BatchResult) -> Value {
    let m = |x: &BTreeMap<&'static str, u64>| -> Value {
        Value::Object(x.iter().map(|(k, v)| (k.to_string(), json!(v))).collect())
    };
    json!({
        "engine": b.engine,
        "rule": b.rule,
        "runs": b.runs,
        "nontrivial_runs": b.nontrivial_runs,
        "distinct_nontrivial_cases_lower_bound": b.acc.shared.cases.count(),
        "ops": b.acc.ops,
        "steps_checked": b.acc.steps_checked,
        "distinct_states_lower_bound": b.acc.shared.states.count(),
        "distinct_op_transitions": b.acc.shared.transitions.count(),
        "faults_fired": m(&b.acc.faults),
        "probes_hit": m(&b.acc.probes),
        "op_kinds": m(&b.acc.opkinds),
        "digest": format!("{:016x}", b.digest),
        "wall_s": b.wall_s,
        "known_hits": Value::Object(b.known_hits.iter().map(|(k, v)| (k.clone(), json!({"count": v.0, "first_run_seed": format!("{:#x}", v.1)}))).collect::<Map<_,_>>()),
        "samples": b.samples,
    })
}

fn add_maps(into: &mut BTreeMap<String, u64>, v: &Value) {
    if let Some(o) = v.as_object() {
        for (k, x) in o {
            *into.entry(k.clone()).or_insert(0) += x.as_u64().unwrap_or(0);
        }
    }
}

/// Merge profile parts into the final evidence document.
pub fn merge_parts(
    property: &str,
    tier: &str,
    seed: u64,
    parts: &[Value],
    violations: u64,
    static_info: &Value,
) -> Value {
    let mut evaluations = 0u64;
    let mut distinct_nontrivial = 0u64;
    let mut ops = 0u64;
    let mut steps = 0u64;
    let mut states = 0u64;
    let mut transitions = 0u64;
    let mut wall = 0f64;
    let mut faults = BTreeMap::new();
    let mut probes = BTreeMap::new();
    let mut opkinds = BTreeMap::new();
    let mut samples: Vec<Value> = Vec::new();
    let mut rules: Vec<String> = Vec::new();
    let mut per_engine: Vec<Value> = Vec::new();
    let mut known: BTreeMap<String, u64> = BTreeMap::new();
    for p in parts {
        let profile = p["profile"].as_str().unwrap_or("?");
        wall += p["wall_s"].as_f64().unwrap_or(0.0);
        for e in p["engines"].as_array().cloned().unwrap_or_default() {
            evaluations += e["runs"].as_u64().unwrap_or(0);
            distinct_nontrivial += e["distinct_nontrivial_cases_lower_bound"]
                .as_u64()
                .unwrap_or(0);
            ops += e["ops"].as_u64().unwrap_or(0);
            steps += e["steps_checked"].as_u64().unwrap_or(0);
            states += e["distinct_states_lower_bound"].as_u64().unwrap_or(0);
            transitions = transitions.max(e["distinct_op_transitions"].as_u64().unwrap_or(0));
            add_maps(&mut faults, &e["faults_fired"]);
            add_maps(&mut probes, &e["probes_hit"]);
            add_maps(&mut opkinds, &e["op_kinds"]);
            if let Some(o) = e["known_hits"].as_object() {
                for (k, v) in o {
                    *known.entry(k.clone()).or_insert(0) += v["count"].as_u64().unwrap_or(0);
                }
            }
            let rule = format!("{}: {}", e["engine"].as_str().unwrap_or("?"), e["rule"].as_str().unwrap_or(""));
            if !rules.contains(&rule) {
                rules.push(rule);
            }
            if samples.len() < 6 {
                if let Some(s) = e["samples"].as_array() {
                    for x in s.iter().take(2) {
                        samples.push(json!({"engine": e["engine"], "profile": profile, "case": x}));
                    }
                }
            }
            let mut e2 = e.clone();
            if let Some(o) = e2.as_object_mut() {
                o.remove("samples");
                o.insert("profile".into(), json!(profile));
                let w = e["wall_s"].as_f64().unwrap_or(0.0).max(1e-9);
                o.insert(
                    "runs_per_hour".into(),
                    json!((e["runs"].as_u64().unwrap_or(0) as f64 / w * 3600.0) as u64),
                );
            }
            per_engine.push(e2);
        }
    }
    let zero_probes: Vec<String> = static_info["expected_probes"]
        .as_array()
        .map(|a| {
            a.iter()
                .filter_map(|x| x.as_str())
                .filter(|k| probes.get(*k).copied().unwrap_or(0) == 0)
                .map(|s| s.to_string())
                .collect()
        })
        .unwrap_or_default();
    let to_obj = |m: &BTreeMap<String, u64>| -> Value {
        Value::Object(m.iter().map(|(k, v)| (k.clone(), json!(v))).collect())
    };
    let rule = format!(
        "Each evaluation is one seeded simulated run (a pure function of VERIF_SEED, engine name and run index). distinct_nontrivial = number of set bits in a 2^26-bit bitmap keyed by the hash of the explicit case (configuration + concrete operation/fault list) of runs that are non-trivial by the engine's rule, summed over engines and build profiles (profiles use different derived seeds); a set-bit count can only under-count distinct cases. Non-trivial rules -- {}",
        rules.join(" | ")
    );
    json!({
        "property_id": property,
        "tier": tier,
        "seed": seed,
        "level": "exploration",
        "coverage": {
            "evaluations": evaluations,
            "distinct_nontrivial": distinct_nontrivial,
            "rule": rule,
            "samples": samples,
            "operations_applied": ops,
            "steps_with_full_oracle_check": steps,
            "distinct_abstract_states_lower_bound": states,
            "distinct_op_kind_transitions": transitions,
            "faults_fired": to_obj(&faults),
            "probes_hit": to_obj(&probes),
            "probes_expected_but_zero": zero_probes,
            "op_kinds": to_obj(&opkinds),
            "runs_per_hour": if wall > 0.0 { (evaluations as f64 / wall * 3600.0) as u64 } else { 0 },
            "simulated_time": "petgraph has no clock or timers; logical steps (operations_applied) are reported instead of simulated seconds",
            "per_engine": per_engine,
            "real_vs_stub": static_info["real_vs_stub"],
            "known_findings_hit": to_obj(&known),
            "exhaustive": false
        },
        "assumptions": static_info["assumptions"],
        "wall_s": wall,
        "violations": violations
    })
}
