#!/usr/bin/env bash
# Run every registered check under a range of VERIF_SEED values on the tree as it is and list
# everything that is not "exit 0, no VIOLATION line". Used to flush out rare alarms on the
# unchanged tree (a different VERIF_SEED is a different set of runs).
# usage: scripts/seed_sweep.sh <first seed> <last seed> [tier] [properties...]
set -u
cd "$(dirname "$0")/.."
first="$1"; last="$2"; tier="${3:-quick}"; shift 3 || shift $#
props="${*:-C01 C02 C03 C04 C05 C06 C07 C14 C17 C19}"
mkdir -p sweep
bad=0
for s in $(seq "$first" "$last"); do
  for p in $props; do
    out="sweep/$p.$tier.$s.log"
    VERIF_SEED=$s ./check "$p" --tier "$tier" >"$out" 2>&1; rc=$?
    if [ $rc -ne 0 ] || grep -q "^VIOLATION" "$out"; then
      bad=$((bad+1)); echo "SWEEP-ALARM seed=$s property=$p rc=$rc"; grep -E "violation in run|^VIOLATION|harness|error" "$out" | head -5
      mkdir -p sweep/replays; cp replays/* sweep/replays/ 2>/dev/null
    else
      rm -f "$out"
    fi
  done
  echo "seed $s done (alarms so far: $bad)"
done
echo "SWEEP DONE first=$first last=$last tier=$tier alarms=$bad"
