#!/usr/bin/env bash
# Evaluate one seeded change WITHOUT touching /repo: a scratch worktree of /repo gets the patch,
# a scratch copy of the simulator is pointed at it and runs the property's engines (quick tier,
# one profile). For my own parallel triage only; the verdict that counts is eval_seeded.sh
# (the registered ./check against /repo itself).
# usage: eval_seeded_scratch.sh <seeded dir> [PROPERTY] [profile=release]
set -u
d="$(cd "$1" && pwd)"; id="$(basename "$d")"; prop="${2:-$(echo "$id" | cut -d- -f1)}"; prof="${3:-release}"
wt=/tmp/ev-wt-$id; sc=/tmp/ev-sim-$id
cleanup() { git -C /repo worktree remove --force "$wt" >/dev/null 2>&1; rm -rf "$wt" "$sc"; }
trap cleanup EXIT
cleanup
git -C /repo worktree add -q --detach "$wt" HEAD || { echo "RESULT $id worktree failed"; exit 2; }
git -C "$wt" apply "$d/patch.diff" || { echo "RESULT $id patch does not apply"; exit 2; }
mkdir -p "$sc/vd"; rsync -a --exclude target "${EV_SIM_SRC:-/tmp/ev-sim-src}/" "$sc/sim/"; cp /verif/known-findings.json "$sc/vd/"
sed -i "s#path = \"/repo\"#path = \"$wt\"#" "$sc/sim/Cargo.toml"
( cd "$sc/sim" && cargo build --offline --profile "$prof" >"$sc/build.log" 2>&1 ) || { echo "RESULT $id build failed"; tail -5 "$sc/build.log"; exit 2; }
bin="$sc/sim/target/$prof/verif-sim"
out=$(VERIF_DIR="$sc/vd" "$bin" run "$prop" --tier quick --seed 20261003 --profile "$prof" --share 1.0 --part-out "$sc/vd/part.json" 2>&1); rc=$?
echo "$out" | grep -E "violation in run|minimised|VIOLATION" | cut -c1-400
echo "RESULT $id property=$prop profile=$prof rc=$rc $( [ $rc -eq 1 ] && echo CAUGHT || echo MISSED )"
