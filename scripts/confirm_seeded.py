#!/usr/bin/env python3
"""Confirm a seeded change in a scratch worktree of /repo (outside /repo and /verif):
 - patch applies to /repo's HEAD and compiles,
 - the demonstration fails with the change and passes without it,
 - the existing test suite still passes with the change.
Writes <dir>/meta.json (merging notes from the author) and removes the worktree afterwards.
usage: confirm_seeded.py <seeded dir> <property id> ["needs" text]"""
import json, os, subprocess, sys, shutil, re, tempfile
d = os.path.abspath(sys.argv[1]); prop = sys.argv[2]
needs = sys.argv[3] if len(sys.argv) > 3 else ""
wt = tempfile.mkdtemp(prefix="wt-confirm-", dir="/tmp")
os.rmdir(wt)
def sh(cmd, cwd=None, timeout=3600):
    p = subprocess.run(cmd, shell=True, cwd=cwd, capture_output=True, text=True, timeout=timeout)
    return p.returncode, p.stdout + p.stderr
meta = {"property": prop, "needs_to_manifest": needs, "ran": []}
try:
    rc, out = sh(f"git -C /repo worktree add -q --detach {wt} HEAD")
    assert rc == 0, out
    is_serde = "serialization-tests" in open(os.path.join(d, "demo.rs")).read() or prop == "C17"
    demo_dst = os.path.join(wt, "serialization-tests/tests/demo_seeded.rs" if prop == "C17" else "tests/demo_seeded.rs")
    demo_cmd = "cargo test --offline -p petgraph-serialization-tests --test demo_seeded" if prop == "C17" else "cargo test --offline --test demo_seeded"
    shutil.copy(os.path.join(d, "demo.rs"), demo_dst)
    rc0, out0 = sh(demo_cmd + " 2>&1 | tail -15", cwd=wt)
    passes_without = "test result: ok" in out0
    meta["ran"].append({"cmd": demo_cmd + " (unmodified)", "passes": passes_without})
    rc, out = sh(f"git apply {d}/patch.diff", cwd=wt)
    meta["patch_applies"] = rc == 0
    if rc == 0:
        rc1, out1 = sh(demo_cmd + " 2>&1 | tail -15", cwd=wt)
        fails_with = "test result: FAILED" in out1 or "panicked" in out1
        meta["ran"].append({"cmd": demo_cmd + " (with change)", "fails": fails_with})
        os.remove(demo_dst)
        rc2, out2 = sh("cargo test --workspace --no-fail-fast --offline 2>&1 | grep -E '^test result|FAILED|^error' ", cwd=wt)
        passed = sum(int(x) for x in re.findall(r"(\d+) passed", out2)); failed = sum(int(x) for x in re.findall(r"(\d+) failed", out2))
        meta["ran"].append({"cmd": "cargo test --workspace --no-fail-fast --offline (with change)", "passed": passed, "failed": failed, "compile_error": "error" in out2 and passed == 0})
        meta["confirmed"] = bool(passes_without and fails_with and failed == 0 and passed > 300)
    else:
        meta["confirmed"] = False
        meta["apply_error"] = out[-500:]
finally:
    sh(f"git -C /repo worktree remove --force {wt}")
    shutil.rmtree(wt, ignore_errors=True)
json.dump(meta, open(os.path.join(d, "meta.json"), "w"), indent=1)
print(os.path.basename(d), "confirmed" if meta.get("confirmed") else "NOT CONFIRMED", json.dumps(meta["ran"]))
