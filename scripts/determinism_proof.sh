#!/usr/bin/env bash
# Determinism proof: for every property, several VERIF_SEED values, two executions each at
# three worker counts and in both build profiles (fresh processes); the batch digests
# (order-independent combination of every run's event digest) must be identical.
# usage: scripts/determinism_proof.sh [seeds=6] [scale=0.02]
set -u
cd "$(dirname "$0")/.."
export VERIF_DIR="$PWD"
./check --setup || exit 2
SEEDS="${1:-6}"; SCALE="${2:-0.02}"
fail=0; cmp=0
for prop in $(sim/target/release/verif-sim list); do
  for s in $(seq 1 "$SEEDS"); do
    seed=$((s * 7919 + 13))
    for prof in release dbg; do
      bin="sim/target/$prof/verif-sim"
      ref=""
      for w in 1 4 16 16; do
        d=$("$bin" run "$prop" --tier quick --seed "$seed" --profile "$prof" --scale "$SCALE" --workers "$w" 2>/dev/null | grep '^DIGEST' | sort | tr '\n' ' ')
        if [ -z "$ref" ]; then ref="$d"; fi
        cmp=$((cmp + 1))
        if [ "$d" != "$ref" ]; then
          echo "NON-DETERMINISTIC: $prop seed=$seed profile=$prof workers=$w"; echo "  ref: $ref"; echo "  got: $d"; fail=1
        fi
      done
    done
  done
  echo "[determinism] $prop ok so far (comparisons: $cmp)"
done
[ "$fail" -eq 0 ] && echo "DETERMINISM OK: $cmp executions compared" || { echo "DETERMINISM FAILED"; exit 1; }
