#!/usr/bin/env python3
"""Regenerates /verif/MANIFEST.json from the table below (single source of truth)."""
import json, os
HERE = os.path.dirname(os.path.dirname(os.path.abspath(__file__)))

HIST = "deterministic simulation: seeded operation/fault histories vs reference model (history refinement)"
CLAIMED = {
 "C01": dict(engine="history:graph", design="DESIGN.md §2 C01",
   text="Seeded search over Graph operation histories (both edge types, four index widths, u8 runs that fill the node and edge index space) executed in lock-step against a Vec-based reference multigraph with explicit per-node recency lists. After every operation the complete observation (counts, every weight and endpoint, find/contains/edges_connecting for all or sampled pairs, neighbors in order for directed graphs, incident edges, externals, whole-graph iterators both ways, detached walkers, raw first_edge/next_edge chains) is compared; after multi-removals the implementation's renumbering is learned from the (always unique) weights and checked against the documented swap rule. Injected faults: absent/stale/end() indices on every index-taking call, equal indices to index_twice_mut, index-limit exhaustion; a failing call must return exactly the documented None/Err/panic and leave the full observation identical. Exploration: clean batch = no sampled history disagreed.",
   note="Trusts the reference model (sim/src/models/adj.rs) and its reading of the documentation; the order of edges()/edges_directed() is compared as a multiset (only neighbors order is documented); extend_with_edges/from_edges lists that would overflow the index type are not issued (behaviour unspecified).",
   technique=HIST),
 "C02": dict(engine="history:stable", design="DESIGN.md §2 C02",
   text="Same engine as C01 on StableGraph, model keyed by stable index with vacancies: new indices are checked for legality (never a live index) and adopted; node_count/edge_count/node_bound/edge_bound and all iterators must describe the model's live set; failing try_* calls (missing, vacant or out-of-range endpoints, biased to land right after a removal so the free lists are non-empty; index-limit exhaustion in u8 runs) must leave the complete observation byte-identical; any panic on a valid call is a violation and the batch is run in two build profiles (release, and release with debug assertions + overflow checks) because the property says 'debug or release'. Exploration.",
   note="Trusts the reference model; all iteration orders are compared as multisets (StableGraph documents none).",
   technique=HIST),
 "C03": dict(engine="history:graphmap", design="DESIGN.md §2 C03",
   text="Seeded search over GraphMap histories (directed and undirected, i32 keys drawn from a small universe so removed keys are re-added often, seeded good / four-bucket / constant BuildHasher through the existing S type parameter) in lock-step with a BTreeSet/BTreeMap simple-graph model: return values of add_edge/remove_*/Build routes, and after every step contains_*, edge_weight, Index, neighbors, neighbors_directed, edges, edges_directed (orientation rules), nodes, all_edges (both ways), counts, the to_index/from_index bijection, plus into_graph/from_graph and FromElements round trips. Faults: absent nodes/edges on every query and removal, IndexMut on a missing edge (documented panic), degenerate hashers. Exploration.",
   note="Trusts the BTree model; iteration orders are compared as multisets (documented as arbitrary).",
   technique=HIST),
 "C04": dict(engine="history:matrix", design="DESIGN.md §2 C04",
   text="Seeded search over MatrixGraph histories: Directed/Undirected x Option/NotZero null element x four index widths x seeded good/four-bucket/constant hasher x initial capacities around every 4/8/16/32/64 step, with runs of up to 70 nodes (and u8 runs that fill the id space) so the flattened matrix is relocated many times while edges sit on its border; node removal, id reuse and re-insertion interleave with edge add/update/remove through every entry point (add_edge, update_edge, try_update_edge, add_or_update_edge, Build routes, remove_edge, try_remove_edge, extend_with_edges, from_edges, clear). After every step node_count, edge_count, node ids and weights, edge_references, has_edge/get_edge_weight/edge_weight for all (or sampled) pairs, neighbors/edges and their directed variants are compared with a map-based simple-graph model; id stability and 'a reused id starts with no incident edges' follow from the comparison. Faults: documented panics (remove_edge of a missing edge, add_edge of an existing one, remove_node of an absent node, zero weight under NotZero, node limit) must leave the relation intact. Exploration.",
   note="Edge operations are only issued between existing nodes and extend_with_edges only on vacancy-free graphs (the property's stated domain: the suite pins that edges to non-existent ids are tolerated). After the documented add_edge-on-existing panic the stored weight may be the old or the new one.",
   technique=HIST),
 "C05": dict(engine="history:csr+list", design="DESIGN.md §2 C05",
   text="Seeded search over Csr histories (directed/undirected, four index widths; add_node, add_edge/try_add_edge in arbitrary order, clear_edges, node-weight writes, clone) including a 'wide' swarm class that builds rows of 25-45 neighbours so both sides of the 32-entry linear/binary cutoff and the transition across it are executed, compared after every step with a BTreeMap row model (rows strictly ascending, slices, out_degree, edges, edge_references, contains_edge for all or sampled pairs, both rows of an undirected edge, add_edge returning false and changing nothing for an existing edge); from_sorted_edges is fed sorted, swapped, duplicated and reversed lists and must succeed exactly on strictly sorted duplicate-free input and then equal the edge-by-edge build. adj::List histories (add_node variants, add_edge, Build::update_edge, clear, weight writes through every edge index ever returned) are compared with a Vec-of-rows model in insertion order, and every returned edge index must keep resolving to its edge. Faults: out-of-range endpoints (Err / documented panic, structure unchanged). Exploration.",
   note="Node counts are capped (120 / 100) so the index type never wraps in add_node (outside the property's domain); Build::update_edge on List is only issued in range (its documentation only says it might panic otherwise).",
   technique=HIST),
 "C06": dict(engine="step-invariant:visit", design="DESIGN.md §2 C06",
   text="Step invariant evaluated on the states reached by the seeded mutation histories of the structure engines (so states with vacant node and edge indices, swap-renumbered graphs, parallel edges and self-loops are the norm): through the visit traits only, node_identifiers/node_references/node_count/to_index/from_index/node_bound, edge_references/edge_count, neighbors/edges/neighbors_directed/edges_directed per node and is_adjacent for every ordered pair of live nodes must describe one graph; the same battery is then run on &G, Reversed, UndirectedAdaptor, NodeFiltered, EdgeFiltered, Frozen and 11 depth-2 stackings against the base view transformed the obvious way. The oracle is self-consistency of the views (ground set = the structure's own node_identifiers + edge_references), independent of any reference model. Exploration.",
   note="UndirectedAdaptor is applied to directed bases only (over an undirected base it doubles every edge by construction) and the multiplicity with which it lists a self-loop (1 or 2) is left open; a run whose structure disagrees with the generation-driving model is discarded and counted, not reported here.",
   technique="deterministic simulation: invariant checked after every step of seeded mutation histories (cross-view consistency)"),
 "C07": dict(engine="replicas", design="DESIGN.md §2 C07 + Appendix A",
   text="Replica agreement: one seeded abstract graph (0-10 labelled nodes, weighted edges, simple or multigraph, directed or undirected, optionally with negative weights) is delivered to up to seven replicas -- Graph<u32> built cleanly (the reference), Graph<u8>, StableGraph<u16>, MatrixGraph<u16>, GraphMap, Csr<u32>, adj::List<u8> -- by a simulated transport that permutes node and edge insertion order, pads the stream with nodes and edges that are removed again (vacant indices below node_bound/edge_bound, swap-renumbering), re-delivers idempotent updates and takes neutral detours (reverse twice, clear_edges + re-add). Every replica must first pass a same-abstract-graph pre-check (otherwise it is discarded and counted). Then 52 algorithm/walker entry points (plus isomorphism, condensation and transitive reduction in a side table) are run on every replica whose type satisfies the trait bounds, each under two simulator-chosen hasher seeds (hashbrown's default hasher is seeded by the simulator) and with fresh and reused workspaces (DfsSpace, TarjanScc); answers are mapped back to labels and compared with the reference: equal where unique (reachable sets, distances, SCC partitions, dominators, articulation points, cliques, max-flow value, matching size, MST weight, page rank, simple-path sets, graph6 meaning), valid and equally optimal where not (toposort, flows, matchings, MST edges, astar path, shortest-path trees, negative cycles), valid only for heuristics (dsatur, greedy matching, feedback arc set). A panic on one encoding where the reference succeeds is a violation. Exploration.",
   note="Only cheap validators are used, no reference implementation of any algorithm; if the reference replica's own answer fails a validator the comparison is skipped (that is the per-algorithm properties' business, which are not applicable to this technique). Three recorded findings (maximum_matching on directed graphs, page_rank on non-compact index spaces, find_negative_cycle's order-dependent bogus cycle) are reported as KNOWN-FINDING lines; all other classes stay active.",
   technique="deterministic simulation: seeded replicas of one abstract graph under a reordering/padding transport and simulator-owned hasher seeds; agreement oracle"),
 "C14": dict(engine="history:acyclic", design="DESIGN.md §2 C14",
   text="Seeded search over Acyclic<DiGraph> and Acyclic<StableDiGraph> histories (four index widths): add_node, try_add_edge, try_update_edge, Build::add_edge/update_edge, remove_edge, remove_node (present, absent, vacant, repeated; biased to non-last nodes of a DiGraph so another node is renumbered), is_valid_edge probes, try_from_graph / TryFrom on seeded cyclic and acyclic graphs with holes. A reachability DFS on the reference model predicts accept / SelfLoop / Cycle exactly; after every step the inner graph must equal the model (same full observation as C01/C02), nodes_iter must list exactly the live nodes, get_position/at_position must be inverse, range(..) must equal nodes_iter, nodes_iter must be sorted by position and every edge must go from an earlier to a later position; a rejected insertion or a removal of an absent node must leave graph and order sequence identical; is_valid_edge must agree with the following insertion. Exploration.",
   note="Edge insertions are only issued between existing nodes (the documentation says they panic otherwise); removal of an absent node may return None or panic, the state must be intact either way.",
   technique=HIST),
 "C17": dict(engine="stream:serde", design="DESIGN.md §2 C17",
   text="Stream simulation: a source Graph / StableGraph / GraphMap built by a seeded mini-history (vacancies, renumbering, full u8 index space; weights (), (i32, adversarial String) or u32) is serialised with serde_json / bincode through a simulated writer onto a simulated disk and deserialised through a simulated reader into the same type, the sibling type or a GraphMap. Faults (0-3 per run, counted when they fire): short writes/reads and EINTR (benign), write error, torn write, read error (crashing), bit flip, byte overwrite, truncation, appended garbage, duplicated range (corrupting), and twelve semantic edits applied to the decoded wire structure (endpoint redirected to a hole / out of range, holes swapped / duplicated / beyond the bound / trailing / inserted in the middle, edge_property swapped, node or edge counts padded to the index limit, edge holes inserted, node dropped). Oracle: with benign faults only the load must succeed and the observation (indices, weights, direction, vacancies) must equal the one taken from the source before serialising (a vacancy-free StableGraph loads as Graph, any Graph as StableGraph); otherwise no panic, and either Err or a graph that passes deep consistency: observation self-consistency, the C06 visit battery, and a seeded follow-up history of 8-24 operations in lock-step with a model initialised from the loaded graph's own observation. Exploration.",
   note="bincode is run with a 4 MiB size limit and hostile streams only with u32 weights, so that a mutated length prefix is an Err and not an allocation the process cannot survive (a property of bincode/serde, not of petgraph). serde_json, bincode and std::io retry loops are trusted.",
   technique="deterministic simulation: simulated writer/disk/reader with injected I/O, corruption and semantic faults; round-trip equality and post-load refinement oracle"),
 "C19": dict(engine="history:unionfind", design="DESIGN.md §2 C19",
   text="Seeded search over UnionFind call histories (all four index widths, u8 filled to its 256-element capacity) run in lock-step against a label-array partition model; after every call the full equivalence relation, the stability of class representatives (find / find_mut / try_* / into_labeling agree and compression changes nothing) and len are compared; out-of-range arguments and absurd try_reserve sizes are injected as faults and must give exactly the documented Err/panic with the partition unchanged. Exploration, not proof: a clean batch means no sampled history disagreed.",
   note="Trusts the label-array model (about 20 lines) and Vec's try_reserve returning Err for a request above isize::MAX. new_set beyond the index type's capacity is outside the property's domain and is not issued.",
   technique=HIST),
}

NOT_APPLICABLE = {
 "C08": "Dfs/Bfs/DfsPostOrder/Topo/depth_first_search are deterministic pure functions of (graph, start, visitor script): there is no history, schedule, fault, stream or randomness for a simulator to own; encoding- and workspace-independence of the same walkers is decided under C07.",
 "C09": "SCC/connectivity/toposort/condensation exactness is a pure function of the input graph (bitsets and union-find only); the reused-DfsSpace clause is exercised as workspace reuse in C07.",
 "C10": "dijkstra/astar/k_shortest_path use hash maps for lookup only, so for a fixed graph the execution is fully determined; exact-cost correctness needs an independent oracle over inputs (input generation), not simulation.",
 "C11": "bellman_ford/spfa/floyd_warshall/find_negative_cycle are deterministic pure functions of the weighted graph; nothing to schedule or fault.",
 "C12": "Kruskal/Prim minimality is a pure function of the weighted graph; only weight equality across encodings is reachable by this technique, and that is decided under C07.",
 "C13": "VF2 is a deterministic search over two fixed graphs with no state outliving the call and no hash containers.",
 "C15": "matching maximality and max-flow = min-cut are pure input/output specifications; index-space and encoding dependence of these algorithms is decided under C07.",
 "C16": "dominators/articulation points versus their path definitions are pure specifications; the only nondeterminism (hash-set iteration in dominators) is the hasher-seed dimension explored under C07.",
 "C18": "graph6 encode/decode and Dot formatting are pure string functions of a graph state (writer failure is not part of the property); the vacancy-dependent ingredient, is_adjacent on StableGraph, is a C06 invariant.",
 "C20": "cliques, colouring, FAS, reduction, simple paths, Steiner, PageRank are pure specifications; hasher-seed and encoding independence of their results is decided under C07.",
}

checks = []
for pid in sorted(CLAIMED):
    c = CLAIMED[pid]
    checks.append({
        "property_id": pid,
        "quick_cmd": f"./check {pid} --tier quick",
        "thorough_cmd": f"./check {pid} --tier thorough",
        "evidence_file": f"evidence/{pid}.json",
        "replay_cmd_template": f"./check {pid} --replay {{path}}",
        "engine": c["engine"],
        "level_claimed": {"category": "exploration", "text": c["text"], "design_ref": c["design"]},
        "level_note": c["note"],
        "technique": c["technique"],
    })

manifest = {
    "version": 1,
    "setup_cmd": "./check --setup",
    "hooks": {
        "guard": "petgraph_verif",
        "enable": "no hooks are needed: every seam used by the simulator already exists in petgraph's public API (BuildHasher parameters, std::io::Read/Write via serde) or lives outside the repository (vendored foldhash with simulator-owned seeding under /verif/sim/vendor). The guard name is reserved; nothing in /repo is compiled differently by the checks.",
        "baseline_off_cmd": "cd /repo && cargo test --workspace --no-fail-fast --offline",
        "source_commits": [],
        "add_only": True,
    },
    "engines": [
        {"name": "verif-sim", "path": "sim", "serves_properties": sorted(CLAIMED),
         "kind_free_text": "single Rust binary (built in two profiles: release, and release + debug assertions/overflow checks) containing the seeded PRNG, batch runner with hang supervisor, generic shrinker, replay, evidence writer, reference models and one engine per structure"},
    ],
    "checks": checks,
    "notes": "Deterministic simulation with fault injection. One integer (VERIF_SEED) decides every run; replay files hold the explicit minimised operation/fault list and are re-executed in a fresh process before a VIOLATION line is printed. Known, unrepaired defects are listed in known-findings.json and reported as KNOWN-FINDING lines.",
    "not_applicable": [{"property_id": k, "reason": v} for k, v in sorted(NOT_APPLICABLE.items())],
}
with open(os.path.join(HERE, "MANIFEST.json"), "w") as f:
    json.dump(manifest, f, indent=1)
    f.write("\n")
print("wrote MANIFEST.json with", len(checks), "checks and", len(NOT_APPLICABLE), "not_applicable")
