#!/usr/bin/env bash
# Run the thorough tier of every registered check once, on the tree as it is; report exit codes and wall time.
set -u
cd "$(dirname "$0")/.."
mkdir -p sweep
for p in ${*:-C19 C04 C05 C14 C03 C07 C02 C01 C17 C06}; do
  t0=$(date +%s)
  ./check "$p" --tier thorough > "sweep/$p.thorough.log" 2>&1; rc=$?
  t1=$(date +%s)
  echo "THOROUGH property=$p rc=$rc wall=$((t1-t0))s violations=$(grep -c '^VIOLATION' sweep/$p.thorough.log)"
  grep -E "violation in run|^VIOLATION|harness error" "sweep/$p.thorough.log" | head -5
  cp evidence/$p.json sweep/$p.thorough.evidence.json 2>/dev/null
done
echo "THOROUGH DONE"
