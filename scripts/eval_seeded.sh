#!/usr/bin/env bash
# Apply one seeded change (seeded/<id>/patch.diff) to /repo, run the quick check of the
# property it targets (or the one given as $2), print the verdict, and ALWAYS undo the change.
# usage: scripts/eval_seeded.sh seeded/C01-1 [PROPERTY] [tier]
set -u
cd "$(dirname "$0")/.."
d="$(cd "$1" && pwd)"; prop="${2:-$(basename "$d" | cut -d- -f1)}"; tier="${3:-quick}"
[ -f "$d/patch.diff" ] || { echo "no patch in $d"; exit 2; }
git -C /repo diff --quiet || { echo "/repo has uncommitted changes; refusing"; exit 2; }
git -C /repo apply "$d/patch.diff" || { echo "patch does not apply"; exit 2; }
out=$(./check "$prop" --tier "$tier" 2>&1); rc=$?
git -C /repo checkout -- . 
echo "$out" | grep -E "VIOLATION|violation in run|minimised" | cut -c1-400
echo "RESULT $d property=$prop rc=$rc $( [ $rc -eq 1 ] && echo CAUGHT || echo MISSED )"
exit 0
